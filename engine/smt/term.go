// Package smt: hash-consed bit-vector/bool terms with local simplification,
// SMT-LIB2 printing and a concrete evaluator.
package smt

import (
	"fmt"
	"strings"
)

type Op uint8

const (
	OpConst Op = iota // BV or Bool constant
	OpVar
	OpAdd
	OpSub
	OpMul
	OpUDiv
	OpSDiv
	OpURem
	OpSRem
	OpAnd
	OpOr
	OpXor
	OpShl
	OpLShr
	OpAShr
	OpNot // bvnot
	OpNeg
	OpEq
	OpULt
	OpULe
	OpSLt
	OpSLe
	OpBAnd // boolean
	OpBOr
	OpBNot
	OpIte
	OpZExt
	OpSExt
	OpExtract // Args[0], Hi, Lo in Val: hi<<8|lo
	OpDistinct
)

var opNames = map[Op]string{OpAdd: "bvadd", OpSub: "bvsub", OpMul: "bvmul", OpUDiv: "bvudiv", OpSDiv: "bvsdiv", OpURem: "bvurem", OpSRem: "bvsrem",
	OpAnd: "bvand", OpOr: "bvor", OpXor: "bvxor", OpShl: "bvshl", OpLShr: "bvlshr", OpAShr: "bvashr", OpNot: "bvnot", OpNeg: "bvneg",
	OpEq: "=", OpULt: "bvult", OpULe: "bvule", OpSLt: "bvslt", OpSLe: "bvsle", OpBAnd: "and", OpBOr: "or", OpBNot: "not", OpIte: "ite", OpDistinct: "distinct"}

// Term: W==0 means Bool sort, otherwise BitVec W.
type Term struct {
	Op   Op
	W    uint8
	Val  uint64 // constant value / extract bounds / ext amount
	Name string
	Args []*Term
	id   int
	str  string
	size uint32 // number of nodes of the term printed as a tree (saturating)
}

// Heavy terms are printed by name (|t!id|) wherever they occur as an operand; whoever sends text to a solver
// defines them first (Solver.declare, Definitions). Printing the term DAG as a tree is exponential in the
// nesting depth of operations that use an operand several times (rounding to 53 bits, saturating arithmetic).
const heavySize = 48

func (t *Term) Heavy() bool { return t.size > heavySize && t.Op != OpConst && t.Op != OpVar }

func (t *Term) setSize() {
	n := uint32(1)
	for _, a := range t.Args {
		if a.Heavy() {
			n++
		} else {
			n += a.size
		}
		if n > 1<<20 {
			n = 1 << 20
		}
	}
	t.size = n
}

func (t *Term) sortSMT() string {
	if t.W == 0 {
		return "Bool"
	}
	return fmt.Sprintf("(_ BitVec %d)", t.W)
}

// DefName is the name under which a heavy term is defined.
func (t *Term) DefName() string { return fmt.Sprintf("|t!%d|", t.id) }

// Definition is the define-fun command of a heavy term.
func (t *Term) Definition() string {
	return "(define-fun " + t.DefName() + " () " + t.sortSMT() + " " + t.Body() + ")"
}

// Definitions appends, operands first, the definitions of the heavy subterms of t not yet in seen.
func Definitions(t *Term, seen map[int]bool, out *[]string) {
	if seen[t.id] {
		return
	}
	seen[t.id] = true
	for _, a := range t.Args {
		Definitions(a, seen, out)
	}
	if t.Heavy() {
		*out = append(*out, t.Definition())
	}
}

func (t *Term) IsConst() bool { return t.Op == OpConst }
func (t *Term) ID() int       { return t.id }

// Ctx is a per-worker term table (not goroutine safe).
type termKey struct {
	op      Op
	w       uint8
	n       uint8
	val     uint64
	name    string
	a, b, c int
}

type Ctx struct {
	fast map[termKey]*Term
	tab  map[string]*Term
	n    int
	Vars []*Term
	T, F *Term
}

func NewCtx() *Ctx {
	c := &Ctx{tab: map[string]*Term{}, fast: map[termKey]*Term{}}
	c.T = c.mk(&Term{Op: OpConst, W: 0, Val: 1})
	c.F = c.mk(&Term{Op: OpConst, W: 0, Val: 0})
	return c
}

func (c *Ctx) mk(t *Term) *Term {
	if len(t.Args) <= 3 { // the common case: a comparable key, no formatting
		k := termKey{op: t.Op, w: t.W, n: uint8(len(t.Args)), val: t.Val, name: t.Name}
		switch len(t.Args) {
		case 3:
			k.c = t.Args[2].id
			fallthrough
		case 2:
			k.b = t.Args[1].id
			fallthrough
		case 1:
			k.a = t.Args[0].id
		}
		if e, ok := c.fast[k]; ok {
			return e
		}
		c.n++
		t.id = c.n
		t.setSize()
		c.fast[k] = t
		if t.Op == OpVar {
			c.Vars = append(c.Vars, t)
		}
		return t
	}
	var b strings.Builder
	fmt.Fprintf(&b, "%d/%d/%d/%s", t.Op, t.W, t.Val, t.Name)
	for _, a := range t.Args {
		fmt.Fprintf(&b, ",%d", a.id)
	}
	k := b.String()
	if e, ok := c.tab[k]; ok {
		return e
	}
	c.n++
	t.id = c.n
	t.setSize()
	c.tab[k] = t
	if t.Op == OpVar {
		c.Vars = append(c.Vars, t)
	}
	return t
}

func mask(w uint8) uint64 {
	if w >= 64 {
		return ^uint64(0)
	}
	return (uint64(1) << w) - 1
}

func sext(v uint64, w uint8) int64 {
	if w >= 64 {
		return int64(v)
	}
	sh := 64 - uint(w)
	return int64(v<<sh) >> sh
}

func (c *Ctx) BV(v uint64, w uint8) *Term { return c.mk(&Term{Op: OpConst, W: w, Val: v & mask(w)}) }
func (c *Ctx) Bool(b bool) *Term {
	if b {
		return c.T
	}
	return c.F
}
func (c *Ctx) Var(name string, w uint8) *Term { return c.mk(&Term{Op: OpVar, W: w, Name: name}) }

// EvalConst computes op on constants.
func evalBin(op Op, w uint8, a, b uint64) (uint64, bool) {
	m := mask(w)
	switch op {
	case OpAdd:
		return (a + b) & m, true
	case OpSub:
		return (a - b) & m, true
	case OpMul:
		return (a * b) & m, true
	case OpUDiv:
		if b == 0 {
			return m, true
		}
		return a / b, true
	case OpURem:
		if b == 0 {
			return a, true
		}
		return a % b, true
	case OpSDiv:
		sa, sb := sext(a, w), sext(b, w)
		if sb == 0 {
			if sa < 0 {
				return 1, true
			}
			return m, true
		}
		if sb == -1 {
			return uint64(-sa) & m, true
		}
		return uint64(sa/sb) & m, true
	case OpSRem:
		sa, sb := sext(a, w), sext(b, w)
		if sb == 0 {
			return a, true
		}
		if sb == -1 {
			return 0, true
		}
		return uint64(sa%sb) & m, true
	case OpAnd:
		return a & b, true
	case OpOr:
		return a | b, true
	case OpXor:
		return a ^ b, true
	case OpShl:
		if b >= uint64(w) {
			return 0, true
		}
		return (a << b) & m, true
	case OpLShr:
		if b >= uint64(w) {
			return 0, true
		}
		return a >> b, true
	case OpAShr:
		sa := sext(a, w)
		if b >= uint64(w) {
			if sa < 0 {
				return m, true
			}
			return 0, true
		}
		return uint64(sa>>b) & m, true
	}
	return 0, false
}

func evalCmp(op Op, w uint8, a, b uint64) bool {
	switch op {
	case OpEq:
		return a == b
	case OpULt:
		return a < b
	case OpULe:
		return a <= b
	case OpSLt:
		return sext(a, w) < sext(b, w)
	case OpSLe:
		return sext(a, w) <= sext(b, w)
	}
	panic("cmp")
}

func (c *Ctx) Bin(op Op, a, b *Term) *Term {
	if a.W != b.W {
		panic(fmt.Sprintf("width mismatch %v: %d vs %d", opNames[op], a.W, b.W))
	}
	if a.IsConst() && b.IsConst() {
		v, _ := evalBin(op, a.W, a.Val, b.Val)
		return c.BV(v, a.W)
	}
	switch op {
	case OpAdd, OpOr, OpXor:
		if a.IsConst() && a.Val == 0 {
			return b
		}
		if b.IsConst() && b.Val == 0 {
			return a
		}
	case OpSub:
		if b.IsConst() && b.Val == 0 {
			return a
		}
		if a == b {
			return c.BV(0, a.W)
		}
	case OpMul:
		if a.IsConst() && a.Val == 1 {
			return b
		}
		if b.IsConst() && b.Val == 1 {
			return a
		}
	case OpShl, OpLShr, OpAShr:
		if b.IsConst() && b.Val == 0 {
			return a
		}
	}
	return c.mk(&Term{Op: op, W: a.W, Args: []*Term{a, b}})
}

func (c *Ctx) Un(op Op, a *Term) *Term {
	if a.IsConst() {
		switch op {
		case OpNot:
			return c.BV(^a.Val, a.W)
		case OpNeg:
			return c.BV(-a.Val, a.W)
		}
	}
	return c.mk(&Term{Op: op, W: a.W, Args: []*Term{a}})
}

func (c *Ctx) Cmp(op Op, a, b *Term) *Term {
	if a.W != b.W {
		panic(fmt.Sprintf("width mismatch cmp: %d vs %d", a.W, b.W))
	}
	if a.IsConst() && b.IsConst() {
		if a.W == 0 {
			return c.Bool(a.Val == b.Val)
		}
		return c.Bool(evalCmp(op, a.W, a.Val, b.Val))
	}
	if a == b {
		switch op {
		case OpEq, OpULe, OpSLe:
			return c.T
		default:
			return c.F
		}
	}
	if op == OpEq && a.W == 0 {
		// boolean equality
		if a.IsConst() {
			if a.Val == 1 {
				return b
			}
			return c.Not(b)
		}
		if b.IsConst() {
			if b.Val == 1 {
				return a
			}
			return c.Not(a)
		}
	}
	if op == OpEq {
		// (= k (ite c k1 k2)) with constants
		ka, it := a, b
		if !ka.IsConst() {
			ka, it = b, a
		}
		if ka.IsConst() && it.Op == OpIte && it.Args[1].IsConst() && it.Args[2].IsConst() {
			t1, t2 := it.Args[1].Val == ka.Val, it.Args[2].Val == ka.Val
			switch {
			case t1 && t2:
				return c.T
			case t1:
				return it.Args[0]
			case t2:
				return c.Not(it.Args[0])
			default:
				return c.F
			}
		}
	}
	if (op == OpSLt || op == OpSLe) && a.Op == OpIte && b.IsConst() && a.Args[1].IsConst() && a.Args[2].IsConst() {
		t1 := evalCmp(op, a.W, a.Args[1].Val, b.Val)
		t2 := evalCmp(op, a.W, a.Args[2].Val, b.Val)
		switch {
		case t1 && t2:
			return c.T
		case t1:
			return a.Args[0]
		case t2:
			return c.Not(a.Args[0])
		default:
			return c.F
		}
	}
	if (op == OpSLt || op == OpSLe) && b.Op == OpIte && a.IsConst() && b.Args[1].IsConst() && b.Args[2].IsConst() {
		t1 := evalCmp(op, a.W, a.Val, b.Args[1].Val)
		t2 := evalCmp(op, a.W, a.Val, b.Args[2].Val)
		switch {
		case t1 && t2:
			return c.T
		case t1:
			return b.Args[0]
		case t2:
			return c.Not(b.Args[0])
		default:
			return c.F
		}
	}
	if op == OpEq && a.id > b.id {
		a, b = b, a
	}
	return c.mk(&Term{Op: op, W: 0, Args: []*Term{a, b}})
}

func (c *Ctx) Not(a *Term) *Term {
	if a.IsConst() {
		return c.Bool(a.Val == 0)
	}
	if a.Op == OpBNot {
		return a.Args[0]
	}
	return c.mk(&Term{Op: OpBNot, W: 0, Args: []*Term{a}})
}

func (c *Ctx) And(a, b *Term) *Term {
	if a.IsConst() {
		if a.Val == 1 {
			return b
		}
		return c.F
	}
	if b.IsConst() {
		if b.Val == 1 {
			return a
		}
		return c.F
	}
	if a == b {
		return a
	}
	return c.mk(&Term{Op: OpBAnd, W: 0, Args: []*Term{a, b}})
}

func (c *Ctx) Or(a, b *Term) *Term {
	if a.IsConst() {
		if a.Val == 1 {
			return c.T
		}
		return b
	}
	if b.IsConst() {
		if b.Val == 1 {
			return c.T
		}
		return a
	}
	if a == b {
		return a
	}
	return c.mk(&Term{Op: OpBOr, W: 0, Args: []*Term{a, b}})
}

func (c *Ctx) Ite(cond, a, b *Term) *Term {
	if cond.IsConst() {
		if cond.Val == 1 {
			return a
		}
		return b
	}
	if a == b {
		return a
	}
	return c.mk(&Term{Op: OpIte, W: a.W, Args: []*Term{cond, a, b}})
}

func (c *Ctx) ZExt(a *Term, w uint8) *Term {
	if w == a.W {
		return a
	}
	if a.IsConst() {
		return c.BV(a.Val, w)
	}
	return c.mk(&Term{Op: OpZExt, W: w, Val: uint64(w - a.W), Args: []*Term{a}})
}

func (c *Ctx) SExt(a *Term, w uint8) *Term {
	if w == a.W {
		return a
	}
	if a.IsConst() {
		return c.BV(uint64(sext(a.Val, a.W)), w)
	}
	return c.mk(&Term{Op: OpSExt, W: w, Val: uint64(w - a.W), Args: []*Term{a}})
}

func (c *Ctx) Trunc(a *Term, w uint8) *Term {
	if w == a.W {
		return a
	}
	if a.IsConst() {
		return c.BV(a.Val, w)
	}
	return c.mk(&Term{Op: OpExtract, W: w, Val: uint64(w-1) << 8, Args: []*Term{a}})
}

func (c *Ctx) Distinct(ts []*Term) *Term {
	if len(ts) < 2 {
		return c.T
	}
	return c.mk(&Term{Op: OpDistinct, W: 0, Args: ts})
}

// SMT prints the term in SMT-LIB2 syntax as an operand: heavy terms by name.
func (t *Term) SMT() string {
	if t.Heavy() {
		return t.DefName()
	}
	return t.Body()
}

// Body prints the term itself (cached); heavy operands appear by name.
func (t *Term) Body() string {
	if t.str != "" {
		return t.str
	}
	var s string
	switch t.Op {
	case OpConst:
		if t.W == 0 {
			if t.Val == 1 {
				s = "true"
			} else {
				s = "false"
			}
		} else if t.W%4 == 0 {
			s = fmt.Sprintf("#x%0*x", int(t.W/4), t.Val)
		} else {
			s = fmt.Sprintf("#b%0*b", int(t.W), t.Val)
		}
	case OpVar:
		s = "|" + t.Name + "|"
	case OpZExt:
		s = fmt.Sprintf("((_ zero_extend %d) %s)", t.Val, t.Args[0].SMT())
	case OpSExt:
		s = fmt.Sprintf("((_ sign_extend %d) %s)", t.Val, t.Args[0].SMT())
	case OpExtract:
		s = fmt.Sprintf("((_ extract %d %d) %s)", t.Val>>8, t.Val&0xff, t.Args[0].SMT())
	default:
		var b strings.Builder
		b.WriteString("(")
		b.WriteString(opNames[t.Op])
		for _, a := range t.Args {
			b.WriteString(" ")
			b.WriteString(a.SMT())
		}
		b.WriteString(")")
		s = b.String()
	}
	t.str = s
	return s
}

// CollectVars appends the variables of t not yet in seen.
func CollectVars(t *Term, seen map[int]bool, out *[]*Term) {
	if seen[t.id] {
		return
	}
	seen[t.id] = true
	if t.Op == OpVar {
		*out = append(*out, t)
	}
	for _, a := range t.Args {
		CollectVars(a, seen, out)
	}
}

type Model map[string]uint64

// Eval evaluates t under m; ok=false if a variable is missing.
func Eval(t *Term, m Model) (uint64, bool) {
	switch t.Op {
	case OpConst:
		return t.Val, true
	case OpVar:
		v, ok := m[t.Name]
		return v & func() uint64 {
			if t.W == 0 {
				return 1
			}
			return mask(t.W)
		}(), ok
	}
	vals := make([]uint64, len(t.Args))
	for i, a := range t.Args {
		v, ok := Eval(a, m)
		if !ok {
			return 0, false
		}
		vals[i] = v
	}
	b2u := func(b bool) uint64 {
		if b {
			return 1
		}
		return 0
	}
	switch t.Op {
	case OpNot:
		return ^vals[0] & mask(t.W), true
	case OpNeg:
		return (-vals[0]) & mask(t.W), true
	case OpEq:
		return b2u(vals[0] == vals[1]), true
	case OpULt, OpULe, OpSLt, OpSLe:
		return b2u(evalCmp(t.Op, t.Args[0].W, vals[0], vals[1])), true
	case OpBAnd:
		return vals[0] & vals[1], true
	case OpBOr:
		return vals[0] | vals[1], true
	case OpBNot:
		return 1 - vals[0], true
	case OpIte:
		if vals[0] == 1 {
			return vals[1], true
		}
		return vals[2], true
	case OpZExt:
		return vals[0], true
	case OpSExt:
		return uint64(sext(vals[0], t.Args[0].W)) & mask(t.W), true
	case OpExtract:
		hi, lo := t.Val>>8, t.Val&0xff
		return (vals[0] >> lo) & mask(uint8(hi-lo+1)), true
	case OpDistinct:
		for i := range vals {
			for j := i + 1; j < len(vals); j++ {
				if vals[i] == vals[j] {
					return 0, true
				}
			}
		}
		return 1, true
	}
	v, ok := evalBin(t.Op, t.W, vals[0], vals[1])
	return v, ok
}

// EvalDefault evaluates t under m, treating variables missing from m as 0.
func EvalDefault(t *Term, m Model) (uint64, bool) {
	memo := map[int]uint64{}
	return evalMemo(t, m, memo), true
}

func evalMemo(t *Term, m Model, memo map[int]uint64) uint64 {
	if v, ok := memo[t.id]; ok {
		return v
	}
	var res uint64
	switch t.Op {
	case OpConst:
		res = t.Val
	case OpVar:
		v := m[t.Name]
		if t.W == 0 {
			res = v & 1
		} else {
			res = v & mask(t.W)
		}
	default:
		mm := Model{}
		args := make([]*Term, len(t.Args))
		for i, a := range t.Args {
			v := evalMemo(a, m, memo)
			args[i] = &Term{Op: OpConst, W: a.W, Val: v}
		}
		_ = mm
		tt := &Term{Op: t.Op, W: t.W, Val: t.Val, Args: args}
		res, _ = Eval(tt, nil)
	}
	memo[t.id] = res
	return res
}
