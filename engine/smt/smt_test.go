package smt

import "testing"

func TestBasic(t *testing.T) {
	c := NewCtx()
	s, err := NewSolver()
	if err != nil {
		t.Fatal(err)
	}
	defer s.Close()
	a, b := c.Var("a", 64), c.Var("b", 64)
	d := c.Bin(OpSub, a, b)
	s.Assert(c.Cmp(OpSLt, a, b))
	r, m := s.Check(c.Cmp(OpSLt, c.BV(0, 64), d), true, []*Term{a, b})
	t.Log(r, m)
	if r != Sat {
		t.Fatal("expected overflow witness")
	}
	v, _ := Eval(c.Cmp(OpSLt, c.BV(0, 64), d), m)
	if v != 1 {
		t.Fatal("eval mismatch")
	}
	r, _ = s.Check(c.Cmp(OpEq, a, b), false, nil)
	if r != Unsat {
		t.Fatal("expected unsat")
	}
}
