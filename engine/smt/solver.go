package smt

import (
	"bufio"
	"fmt"
	"io"
	"os/exec"
	"strconv"
	"strings"
	"time"
)

type Result int

const (
	Unsat Result = iota
	Sat
	Unknown
)

func (r Result) String() string { return [...]string{"unsat", "sat", "unknown"}[r] }

// Solver is one long-lived solver process driven over a pipe.
type Solver struct {
	cmd      *exec.Cmd
	in       io.WriteCloser
	out      *bufio.Reader
	declared map[int]bool // term ids declared at level 0
	Queries  int
	NSat     int
	NUnsat   int
	NUnknown int
	Time     time.Duration
	Log      io.Writer
	asserted int
	inPath   bool
}

func NewSolver(argv ...string) (*Solver, error) {
	if len(argv) == 0 {
		argv = []string{"z3", "-in"}
	}
	cmd := exec.Command(argv[0], argv[1:]...)
	in, err := cmd.StdinPipe()
	if err != nil {
		return nil, err
	}
	out, err := cmd.StdoutPipe()
	if err != nil {
		return nil, err
	}
	cmd.Stderr = cmd.Stdout
	if err := cmd.Start(); err != nil {
		return nil, err
	}
	s := &Solver{cmd: cmd, in: in, out: bufio.NewReaderSize(out, 1<<16), declared: map[int]bool{}}
	s.send("(set-option :print-success false)")
	return s, nil
}

func (s *Solver) send(line string) {
	if s.Log != nil {
		fmt.Fprintln(s.Log, line)
	}
	io.WriteString(s.in, line)
	io.WriteString(s.in, "\n")
}

func (s *Solver) Close() {
	s.send("(exit)")
	s.in.Close()
	s.cmd.Wait()
}

// Reset clears all assertions and declarations (start of a new path).
func (s *Solver) Reset() {
	if s.inPath {
		s.send("(pop)")
	}
	s.send("(push)")
	s.inPath = true
	s.declared = map[int]bool{}
	s.asserted = 0
}

func (s *Solver) declare(t *Term) {
	if s.declared[t.id] {
		return
	}
	s.declared[t.id] = true
	for _, a := range t.Args {
		s.declare(a)
	}
	switch {
	case t.Op == OpVar && t.W == 0:
		s.send("(declare-const |" + t.Name + "| Bool)")
	case t.Op == OpVar:
		s.send(fmt.Sprintf("(declare-const |%s| (_ BitVec %d))", t.Name, t.W))
	case t.Heavy():
		s.send(t.Definition())
	}
}

// Assert adds t permanently (for the current path).
func (s *Solver) Assert(t *Term) {
	if t.IsConst() && t.Val == 1 {
		return
	}
	s.declare(t)
	s.send("(assert " + t.SMT() + ")")
	s.asserted++
}

func (s *Solver) readLine() string {
	line, err := s.out.ReadString('\n')
	if err != nil {
		panic("solver died: " + err.Error())
	}
	return strings.TrimSpace(line)
}

// Check asks whether asserted ∧ extra is satisfiable. If wantModel and sat, returns values for vars.
func (s *Solver) Check(extra *Term, wantModel bool, vars []*Term) (Result, Model) {
	t0 := time.Now()
	defer func() { s.Time += time.Since(t0) }()
	s.Queries++
	if extra != nil {
		s.declare(extra)
	}
	for _, v := range vars {
		s.declare(v)
	}
	s.send("(push)")
	if extra != nil {
		s.send("(assert " + extra.SMT() + ")")
	}
	s.send("(check-sat)")
	ans := s.readLine()
	for strings.HasPrefix(ans, "(error") || ans == "" {
		if strings.HasPrefix(ans, "(error") {
			s.send("(pop)")
			s.NUnknown++
			return Unknown, nil
		}
		ans = s.readLine()
	}
	var res Result
	var m Model
	switch ans {
	case "sat":
		res = Sat
		s.NSat++
		if wantModel {
			m = Model{}
		}
		if wantModel && len(vars) > 0 {
			var b strings.Builder
			b.WriteString("(get-value (")
			for _, v := range vars {
				b.WriteString("|" + v.Name + "| ")
			}
			b.WriteString("))")
			s.send(b.String())
			for k, v := range s.readModel(len(vars)) {
				m[k] = v
			}
		}
	case "unsat":
		res = Unsat
		s.NUnsat++
	default:
		res = Unknown
		s.NUnknown++
	}
	s.send("(pop)")
	return res, m
}

// readModel parses ((|a| #x..) (|b| true) ...), possibly spanning lines.
func (s *Solver) readModel(n int) Model {
	m := Model{}
	depth := 0
	var buf strings.Builder
	for {
		line := s.readLine()
		buf.WriteString(line)
		buf.WriteString(" ")
		depth += strings.Count(line, "(") - strings.Count(line, ")")
		if depth <= 0 {
			break
		}
	}
	txt := buf.String()
	// tokenise pairs
	i := 0
	for i < len(txt) {
		j := strings.Index(txt[i:], "(|")
		if j < 0 {
			break
		}
		i += j + 2
		k := strings.Index(txt[i:], "|")
		name := txt[i : i+k]
		i += k + 1
		rest := strings.TrimLeft(txt[i:], " ")
		end := strings.IndexAny(rest, ") ")
		tok := rest[:end]
		var v uint64
		switch {
		case tok == "true":
			v = 1
		case tok == "false":
			v = 0
		case strings.HasPrefix(tok, "#x"):
			v, _ = strconv.ParseUint(tok[2:], 16, 64)
		case strings.HasPrefix(tok, "#b"):
			v, _ = strconv.ParseUint(tok[2:], 2, 64)
		}
		m[name] = v
	}
	return m
}
