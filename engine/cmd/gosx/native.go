package main

import (
	"bytes"
	"encoding/json"
	"fmt"
	"os"
	"os/exec"
	"path/filepath"
	"strings"
	"time"

	"gosx/interp"
)

// nativeBuild is the harness package compiled natively (go test -c -overlay) against /repo's working tree.
type nativeBuild struct {
	dir     string
	bin     string
	overlay string
	race    bool
	steered bool
}

func goEnv() []string {
	return append(os.Environ(), "GOFLAGS=-mod=mod", "GOPROXY=off", "GOSUMDB=off", "GOTOOLCHAIN=local")
}

func writeOverlay(path string) error {
	ov := struct{ Replace map[string]string }{overlayFiles()}
	b, _ := json.MarshalIndent(ov, "", " ")
	return os.WriteFile(path, b, 0o644)
}

func buildNative(race bool) (*nativeBuild, error) { return buildNativeMode(race, false) }

// buildNativeSteered: the build in which a recorded schedule can be imposed (see steer.go).
func buildNativeSteered(race bool) (*nativeBuild, error) { return buildNativeMode(race, true) }

func buildNativeMode(race, steered bool) (*nativeBuild, error) {
	dir, err := os.MkdirTemp("", "gosx-native-")
	if err != nil {
		return nil, err
	}
	nb := &nativeBuild{dir: dir, bin: filepath.Join(dir, "zz.test"), overlay: filepath.Join(dir, "overlay.json"), race: race, steered: steered}
	cleanups = append(cleanups, nb.cleanup)
	if steered {
		ov, err := steeredOverlay(dir)
		if err != nil {
			os.RemoveAll(dir)
			return nil, err
		}
		b, _ := json.MarshalIndent(struct{ Replace map[string]string }{ov}, "", " ")
		if err := os.WriteFile(nb.overlay, b, 0o644); err != nil {
			return nil, err
		}
	} else if err := writeOverlay(nb.overlay); err != nil {
		return nil, err
	}
	args := []string{"test", "-c", "-vet=off", "-tags", "verif", modfileFlag(), "-overlay", nb.overlay, "-o", nb.bin}
	if race {
		args = append(args, "-race")
	}
	args = append(args, "./zz_verif")
	cmd := exec.Command("go", args...)
	cmd.Dir = repoRoot
	cmd.Env = goEnv()
	if race {
		cmd.Env = append(cmd.Env, "CGO_ENABLED=1")
	}
	out, err := cmd.CombinedOutput()
	if err != nil {
		os.RemoveAll(dir)
		return nil, fmt.Errorf("go test -c: %v\n%s", err, out)
	}
	return nb, nil
}

func (nb *nativeBuild) cleanup() { os.RemoveAll(nb.dir) }

type nativeResult struct {
	Failures []string // "prop | msg | tags", "PANIC | kind @ site | tags", "DEADLOCK | ...", "RACE | ..."
	Obs      []string
	Done     bool
	Output   string
}

// boundsClass: the order in which the bounds checks of one statement are made is not specified (x[0], x[1:] in
// one assignment: go/ssa indexes first, the gc compiler checks the slice bounds first); both are the same defect.
func boundsClass(s string) string {
	s = strings.Replace(s, "PANIC | slice bounds out of range @", "PANIC | out of range @", 1)
	return strings.Replace(s, "PANIC | index out of range @", "PANIC | out of range @", 1)
}

func (r *nativeResult) confirms(sig string) bool {
	for _, f := range r.Failures {
		if f == sig || (strings.HasPrefix(sig, "PANIC | ") && boundsClass(f) == boundsClass(sig)) {
			return true
		}
		// a crash in a goroutine other than the harness's is reported without signature tags
		if strings.HasSuffix(f, " | *") && strings.HasPrefix(sig+" | ", strings.TrimSuffix(f, "*")) {
			return true
		}
	}
	// deadlocks / races: class match is enough (native stacks differ from interpreter frames)
	cls := strings.SplitN(sig, " | ", 2)[0]
	if cls == "DEADLOCK" || cls == "RACE" {
		for _, f := range r.Failures {
			if strings.HasPrefix(f, cls+" | ") {
				return true
			}
		}
	}
	return false
}

// run executes the harness natively under the given model. saveDir != "" keeps model.json there.
func (nb *nativeBuild) run(m *interp.ReplayModel, saveDir string) *nativeResult {
	mp := filepath.Join(nb.dir, "model.json")
	if saveDir != "" {
		os.MkdirAll(saveDir, 0o755)
		mp = filepath.Join(saveDir, "model.json")
	}
	b, _ := json.MarshalIndent(m, "", " ")
	os.WriteFile(mp, b, 0o644)
	if nb.steered {
		return runNativeBinEnv(nb.bin, mp, 60*time.Second, "VX_STEER=1")
	}
	return runNativeBin(nb.bin, mp, 60*time.Second)
}

func runNativeBin(bin, modelPath string, timeout time.Duration) *nativeResult {
	return runNativeBinEnv(bin, modelPath, timeout)
}

// stress re-runs a concurrent harness natively up to n times in one process (real goroutines, no steering).
func (nb *nativeBuild) stress(m *interp.ReplayModel, saveDir string, n int) *nativeResult {
	mp := filepath.Join(nb.dir, "model.json")
	if saveDir != "" {
		os.MkdirAll(saveDir, 0o755)
		mp = filepath.Join(saveDir, "model.json")
	}
	b, _ := json.MarshalIndent(m, "", " ")
	os.WriteFile(mp, b, 0o644)
	return runNativeBinEnv(nb.bin, mp, 300*time.Second, fmt.Sprintf("VX_STRESS=%d", n))
}

func runNativeBinEnv(bin, modelPath string, timeout time.Duration, extraEnv ...string) *nativeResult {
	cmd := exec.Command(bin, "-test.run", "^TestReplay$", "-test.v", "-test.timeout", "600s")
	cmd.Dir = repoRoot
	cmd.Env = append(append(os.Environ(), "VX_MODEL="+modelPath, "VX_REPO="+repoRoot), extraEnv...)
	var buf bytes.Buffer
	cmd.Stdout = &buf
	cmd.Stderr = &buf
	done := make(chan error, 1)
	cmd.Start()
	go func() { done <- cmd.Wait() }()
	select {
	case <-done:
	case <-time.After(timeout):
		cmd.Process.Kill()
		<-done
	}
	out := buf.String()
	if len(out) > 1<<20 {
		out = out[len(out)-(1<<20):]
	}
	res := &nativeResult{Output: out}
	var tags string
	_ = tags
	for _, line := range strings.Split(res.Output, "\n") {
		line = strings.TrimSpace(line)
		switch {
		case strings.HasPrefix(line, "VX-ASSERT-FAILED "):
			res.Failures = append(res.Failures, strings.TrimPrefix(line, "VX-ASSERT-FAILED "))
		case strings.HasPrefix(line, "VX-PANIC "):
			res.Failures = append(res.Failures, "PANIC | "+strings.TrimPrefix(line, "VX-PANIC "))
		case line == "VX-DEADLOCK":
			res.Failures = append(res.Failures, "DEADLOCK | all goroutines blocked")
		case strings.HasPrefix(line, "WARNING: DATA RACE"):
			res.Failures = append(res.Failures, "RACE | data race")
		case strings.HasPrefix(line, "fatal error: all goroutines are asleep"):
			res.Failures = append(res.Failures, "DEADLOCK | all goroutines blocked")
		case strings.HasPrefix(line, "VX-OBS "):
			res.Obs = append(res.Obs, strings.TrimPrefix(line, "VX-OBS "))
		case line == "VX-DONE":
			res.Done = true
		}
	}
	// uncaught panic in a goroutine of the code under test: the Go runtime prints "panic: ..." and the stacks
	if i := strings.Index(out, "\npanic: "); i >= 0 && !strings.Contains(out, "VX-PANIC ") {
		rest := out[i+1:]
		msg := strings.SplitN(strings.TrimPrefix(rest, "panic: "), "\n", 2)[0]
		site := ""
		for _, line := range strings.Split(rest, "\n") {
			line = strings.TrimSpace(line)
			if !strings.HasPrefix(line, repoRoot+"/") || strings.Contains(line, "/zz_verif/") || strings.Contains(line, "/internal/vx/") {
				continue
			}
			f := strings.Fields(line)[0]
			site = strings.TrimPrefix(f, repoRoot+"/")
			break
		}
		res.Failures = append(res.Failures, "PANIC | "+interp.PanicKind(msg)+" @ "+site+" | *")
	}
	return res
}

// cmdReplay: gosx replay <dir>  — rebuilds the native harness from the current tree and re-runs model.json.
func cmdReplay(args []string) {
	if len(args) < 1 {
		fatal(2, "usage: gosx replay <dir>")
	}
	dir, _ := filepath.Abs(args[0])
	mp := filepath.Join(dir, "model.json")
	b, err := os.ReadFile(mp)
	if err != nil {
		fatal(2, "%v", err)
	}
	var m interp.ReplayModel
	if err := json.Unmarshal(b, &m); err != nil {
		fatal(2, "%v", err)
	}
	race := false
	for _, e := range m.Expect {
		if strings.HasPrefix(e, "RACE") {
			race = true
		}
	}
	nb, err := buildNative(race)
	if err != nil {
		fatal(2, "%v", err)
	}
	defer nb.cleanup()
	res := runNativeBin(nb.bin, mp, 120*time.Second)
	fmt.Print(res.Output)
	ok := false
	for _, e := range m.Expect {
		if res.confirms(e) {
			ok = true
		}
	}
	if !ok && len(m.Sync) > 0 {
		// schedule-dependent: impose the recorded schedule in the steered build
		if sb, err := buildNativeSteered(race); err == nil {
			defer sb.cleanup()
			res = runNativeBinEnv(sb.bin, mp, 120*time.Second, "VX_STEER=1")
			fmt.Print(res.Output)
			for _, e := range m.Expect {
				if res.confirms(e) {
					ok = true
				}
			}
		} else {
			fmt.Printf("steered build failed: %v\n", err)
		}
	}
	if ok {
		fmt.Printf("REPLAY: violation reproduced: %v\n", m.Expect)
		exit(1)
	}
	fmt.Printf("REPLAY: not reproduced (expected %v, got %v)\n", m.Expect, res.Failures)
	exit(0)
}
