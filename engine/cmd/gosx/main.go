package main

import (
	"encoding/json"
	"flag"
	"fmt"
	"os"
	"path/filepath"
	"sort"
	"strings"
	"sync"
	"time"

	"gosx/interp"

	"golang.org/x/tools/go/packages"
	"golang.org/x/tools/go/ssa"
	"golang.org/x/tools/go/ssa/ssautil"
)

func main() {
	harnessDir := flag.String("harness", "/tmp/gosx/harness", "directory with harness .go files (package zz_verif) and vx/")
	fnName := flag.String("fn", "", "harness function")
	workers := flag.Int("j", 16, "workers")
	trace := flag.Bool("trace", false, "trace instructions")
	maxPaths := flag.Int("maxpaths", 0, "stop after n paths")
	flag.Parse()

	t0 := time.Now()
	overlay := map[string][]byte{}
	add := func(virt, real string) {
		b, err := os.ReadFile(real)
		if err != nil {
			panic(err)
		}
		overlay[virt] = b
	}
	hs, _ := filepath.Glob(filepath.Join(*harnessDir, "*.go"))
	for _, h := range hs {
		add("/repo/zz_verif/"+filepath.Base(h), h)
	}
	vs, _ := filepath.Glob(filepath.Join(*harnessDir, "vx", "*.go"))
	for _, v := range vs {
		add("/repo/internal/vx/"+filepath.Base(v), v)
	}
	for _, kv := range strings.Split(os.Getenv("GOSX_OVERLAY"), ",") {
		if parts := strings.SplitN(kv, "=", 2); len(parts) == 2 {
			add(parts[0], parts[1])
		}
	}
	cfg := &packages.Config{Mode: packages.LoadAllSyntax, Dir: "/repo", Overlay: overlay, Env: append(os.Environ(), "GOFLAGS=-mod=mod")}
	pkgs, err := packages.Load(cfg, "./zz_verif")
	if err != nil {
		panic(err)
	}
	if packages.PrintErrors(pkgs) > 0 {
		os.Exit(2)
	}
	prog, spkgs := ssautil.AllPackages(pkgs, ssa.InstantiateGenerics)
	hp := spkgs[0]
	hp.Build()
	for _, p := range prog.AllPackages() {
		if strings.HasPrefix(p.Pkg.Path(), "berty.tech/go-ipfs-log") {
			p.Build()
		}
	}
	fn := hp.Func(*fnName)
	if fn == nil {
		fmt.Println("no such harness function", *fnName)
		os.Exit(2)
	}
	fmt.Printf("loaded in %v\n", time.Since(t0))

	if os.Getenv("GOSX_SITES") != "" {
		interp.EnableDebugSites()
	}
	ex := interp.NewExplorer(prog, fn, *workers)
	ex.Trace = *trace
	ex.MaxPaths = *maxPaths
	t1 := time.Now()
	ex.Run()
	wall := time.Since(t1)
	st := ex.Total
	fmt.Printf("paths=%d aborted=%d inconclusive=%d instrs=%d decisions=%d branchQ=%d assertQ=%d modelHits=%d obligations=%d discharged=%d violations=%d sched=%d solver=%.2fs wall=%v\n",
		ex.Paths, ex.Aborted, len(ex.Inconclusive), st.Instrs, st.Decisions, st.BranchQueries, st.AssertQueries, st.ModelHits, st.Obligations, st.Discharged, len(ex.Violations), st.SchedPoints, ex.SolverTime.Seconds(), wall)
	var mu sync.Mutex
	_ = mu
	for i, inc := range ex.Inconclusive {
		if i < 5 {
			fmt.Println("INCONCLUSIVE:", inc)
		}
	}
	seen := map[string]int{}
	for _, v := range ex.Violations {
		k := v.Prop + " | " + v.Msg
		seen[k]++
		if seen[k] == 1 {
			m, _ := json.Marshal(v.Model)
			fmt.Printf("VIOLATION %s model=%s\n", k, m)
		}
	}
	for k, n := range seen {
		fmt.Printf("  %dx %s\n", n, k)
	}
	var fns []string
	for f, n := range ex.Funcs {
		fns = append(fns, fmt.Sprintf("%s(%d)", f, n))
	}
	sort.Strings(fns)
	fmt.Printf("functions entered: %d\n", len(fns))
	if len(fns) < 80 {
		fmt.Println(strings.Join(fns, " "))
	}
	for k, n := range interp.DebugSites() {
		fmt.Printf("SITE %6d %s\n", n, k)
	}
	var cov []string
	for c := range ex.Cover {
		cov = append(cov, c)
	}
	sort.Strings(cov)
	fmt.Println("cover:", cov)
}
