// Command gosx: bounded symbolic execution of go-ipfs-log's SSA with an SMT solver.
//
//	gosx run   -fn H_x [-explore -pb n -race] [-p K=V,K=V] [-j 16]     (development)
//	gosx check -prop C16 -tier quick|thorough                           (registry-driven; evidence; replay; exit code)
//	gosx replay <dir>                                                    (native re-run of a stored counterexample)
package main

import (
	"flag"
	"fmt"
	"os"
	"path/filepath"
	"runtime/debug"
	"runtime/pprof"
	"sort"
	"strconv"
	"strings"
	"time"

	"gosx/interp"

	"golang.org/x/tools/go/packages"
	"golang.org/x/tools/go/ssa"
	"golang.org/x/tools/go/ssa/ssautil"
)

var (
	verifRoot = envOr("VERIF_ROOT", "/verif")
	repoRoot  = envOr("VERIF_REPO", "/repo")
)

func envOr(k, d string) string {
	if v := os.Getenv(k); v != "" {
		return v
	}
	return d
}

func harnessDir() string { return filepath.Join(verifRoot, "harness") }

var modfileDir string

// modfileFlag copies /repo's go.mod and go.sum to a scratch directory and returns -modfile=..., so that
// neither loading nor native builds ever write to /repo (the harness adds direct imports).
func modfileFlag() string {
	if modfileDir == "" {
		d, err := os.MkdirTemp("", "gosx-mod-")
		if err != nil {
			fatal(2, "%v", err)
		}
		modfileDir = d
		for _, f := range []string{"go.mod", "go.sum"} {
			b, err := os.ReadFile(filepath.Join(repoRoot, f))
			if err != nil {
				fatal(2, "%v", err)
			}
			os.WriteFile(filepath.Join(d, f), b, 0o644)
		}
	}
	return "-modfile=" + filepath.Join(modfileDir, "go.mod")
}

func cleanupModfile() {
	if modfileDir != "" {
		os.RemoveAll(modfileDir)
	}
}

// overlayFiles maps virtual paths inside /repo to the real harness files.
func overlayFiles() map[string]string {
	out := map[string]string{}
	hs, _ := filepath.Glob(filepath.Join(harnessDir(), "*.go"))
	for _, h := range hs {
		out[filepath.Join(repoRoot, "zz_verif", filepath.Base(h))] = h
	}
	vs, _ := filepath.Glob(filepath.Join(harnessDir(), "vx", "*.go"))
	for _, v := range vs {
		out[filepath.Join(repoRoot, "internal", "vx", filepath.Base(v))] = v
	}
	for _, kv := range strings.Split(os.Getenv("GOSX_OVERLAY"), ",") {
		if parts := strings.SplitN(kv, "=", 2); len(parts) == 2 {
			out[parts[0]] = parts[1]
		}
	}
	return out
}

type loaded struct {
	prog   *ssa.Program
	hp     *ssa.Package
	loadS  float64
}

func load() *loaded {
	t0 := time.Now()
	overlay := map[string][]byte{}
	for virt, real := range overlayFiles() {
		b, err := os.ReadFile(real)
		if err != nil {
			fatal(2, "read %s: %v", real, err)
		}
		overlay[virt] = b
	}
	cfg := &packages.Config{Mode: packages.LoadAllSyntax, Dir: repoRoot, Overlay: overlay, BuildFlags: []string{"-tags=verif", modfileFlag()},
		Env: append(os.Environ(), "GOFLAGS=-mod=mod", "GOPROXY=off", "GOSUMDB=off", "GOTOOLCHAIN=local")}
	pkgs, err := packages.Load(cfg, "./zz_verif")
	if err != nil {
		fatal(2, "load: %v", err)
	}
	if packages.PrintErrors(pkgs) > 0 {
		fatal(2, "INCONCLUSIVE: %s does not type-check with the harness (see errors above)", repoRoot)
	}
	prog, spkgs := ssautil.AllPackages(pkgs, ssa.InstantiateGenerics)
	hp := spkgs[0]
	hp.Build()
	for _, p := range prog.AllPackages() {
		if strings.HasPrefix(p.Pkg.Path(), "berty.tech/go-ipfs-log") {
			p.Build()
		}
	}
	return &loaded{prog: prog, hp: hp, loadS: time.Since(t0).Seconds()}
}

func fatal(code int, f string, a ...interface{}) {
	fmt.Fprintf(os.Stderr, f+"\n", a...)
	exit(code)
}

var cleanups []func()

func exit(code int) {
	pprof.StopCPUProfile()
	for _, f := range cleanups {
		f()
	}
	cleanupModfile()
	os.Exit(code)
}

func parseParams(s string) map[string]int {
	out := map[string]int{}
	for _, kv := range strings.Split(s, ",") {
		if p := strings.SplitN(kv, "=", 2); len(p) == 2 {
			n, _ := strconv.Atoi(p[1])
			out[p[0]] = n
		}
	}
	return out
}

func main() {
	if os.Getenv("GOGC") == "" {
		debug.SetGCPercent(400) // the interpreter allocates many short-lived small values; trade memory for fewer collections
	}
	interp.RepoRoot = repoRoot
	if len(os.Args) < 2 {
		fatal(2, "usage: gosx run|check|replay ...")
	}
	switch os.Args[1] {
	case "run":
		cmdRun(os.Args[2:])
	case "check":
		cmdCheck(os.Args[2:])
	case "replay":
		cmdReplay(os.Args[2:])
	case "selftest":
		cmdSelftest()
	default:
		fatal(2, "unknown command %s", os.Args[1])
	}
	exit(0)
}

func cmdRun(args []string) {
	fs := flag.NewFlagSet("run", flag.ExitOnError)
	fnName := fs.String("fn", "", "harness function")
	workers := fs.Int("j", 16, "workers")
	trace := fs.Bool("trace", false, "trace instructions")
	maxPaths := fs.Int("maxpaths", 0, "stop after n paths")
	explore := fs.Bool("explore", false, "explore all schedules")
	pb := fs.Int("pb", -1, "preemption bound")
	race := fs.Bool("race", false, "race detector")
	params := fs.String("p", "", "K=V,K=V harness parameters")
	replayV := fs.Bool("replay", false, "replay violations natively")
	budget := fs.Duration("budget", 0, "wall clock budget")
	cpuprof := fs.String("cpuprofile", "", "write a CPU profile")
	fs.Parse(args)
	if *cpuprof != "" {
		f, _ := os.Create(*cpuprof)
		pprof.StartCPUProfile(f)
		defer pprof.StopCPUProfile()
	}
	ld := load()
	fn := ld.hp.Func(*fnName)
	if fn == nil {
		fatal(2, "no such harness function %s", *fnName)
	}
	fmt.Printf("loaded in %.1fs\n", ld.loadS)
	if os.Getenv("GOSX_SITES") != "" {
		interp.EnableDebugSites()
	}
	ex := interp.NewExplorer(ld.prog, interp.RunConfig{Fn: fn, Name: *fnName, Params: parseParams(*params), Explore: *explore, PB: *pb, Race: *race,
		Workers: *workers, MaxPaths: *maxPaths, Trace: *trace, Budget: *budget, SolverArgv: solverArgv()})
	ex.Run()
	printSummary(ex)
	if *replayV && len(ex.Violations) > 0 {
		nb, err := buildNative(false)
		if err != nil {
			fatal(2, "native build: %v", err)
		}
		defer nb.cleanup()
		seen := map[string]bool{}
		for _, v := range ex.Violations {
			if seen[v.Sig] || v.Replay == nil {
				continue
			}
			seen[v.Sig] = true
			res := nb.run(v.Replay, "")
			if !res.confirms(v.Sig) && len(v.Replay.Sched) > 0 {
				res = nb.stress(v.Replay, "", 500)
			}
			fmt.Printf("REPLAY %q confirmed=%v failures=%v\n", v.Sig, res.confirms(v.Sig), res.Failures)
		}
	}
}

func solverArgv() []string {
	if s := os.Getenv("GOSX_SOLVER"); s != "" {
		return strings.Fields(s)
	}
	return []string{"z3-new", "-in"}
}

func printSummary(ex *interp.Explorer) {
	st := ex.Total
	fmt.Printf("paths=%d ok=%d aborted=%d inconclusive=%d instrs=%d decisions=%d branchQ=%d assertQ=%d modelHits=%d obligations=%d discharged=%d violations=%d sched=%d solver=%.2fs wall=%v exhaustive=%v\n",
		ex.Paths, ex.OKPaths, ex.Aborted, len(ex.Inconclusive), st.Instrs, st.Decisions, st.BranchQueries, st.AssertQueries, st.ModelHits, st.Obligations, st.Discharged, len(ex.Violations), st.SchedPoints, ex.SolverTime.Seconds(), ex.Wall, ex.Exhaustive)
	incs := map[string]int{}
	for _, inc := range ex.Inconclusive {
		incs[inc]++
	}
	i := 0
	for inc, n := range incs {
		if i < 8 {
			fmt.Printf("INCONCLUSIVE %dx: %s\n", n, inc)
		}
		i++
	}
	seen := map[string]int{}
	for _, v := range ex.Violations {
		seen[v.Sig]++
		if seen[v.Sig] == 1 && v.Replay != nil {
			fmt.Printf("VIOLATION %s detail=%q vals=%v bytes=%v\n", v.Sig, v.Detail, v.Replay.Vals, v.Replay.Bytes)
		}
	}
	var ks []string
	for k := range seen {
		ks = append(ks, k)
	}
	sort.Strings(ks)
	for _, k := range ks {
		fmt.Printf("  %dx %s\n", seen[k], k)
	}
	fmt.Printf("functions entered: %d\n", len(ex.Funcs))
	for k, n := range interp.DebugSites() {
		fmt.Printf("SITE %6d %s\n", n, k)
	}
	var cov []string
	for c := range ex.Cover {
		cov = append(cov, c)
	}
	sort.Strings(cov)
	fmt.Println("cover:", cov)
}
