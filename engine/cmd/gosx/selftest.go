package main

import (
	"fmt"
	"math/rand"

	"gosx/smt"
)

// cmdSelftest: the solver answers sat/unsat correctly on bit-vector queries whose answer is known, and
// the term evaluator agrees with the solver's models (run by MANIFEST.setup_cmd).
func cmdSelftest() {
	sol, err := smt.NewSolver(solverArgv()...)
	if err != nil {
		fatal(2, "selftest: cannot start solver %v: %v", solverArgv(), err)
	}
	defer sol.Close()
	c := smt.NewCtx()
	sol.Reset()
	x, y := c.Var("x", 64), c.Var("y", 64)
	// x - y overflows: exists x<y (signed) with x-y > 0
	q := c.And(c.Cmp(smt.OpSLt, x, y), c.Cmp(smt.OpSLt, c.BV(0, 64), c.Bin(smt.OpSub, x, y)))
	r, m := sol.Check(q, true, []*smt.Term{x, y})
	if r != smt.Sat {
		fatal(2, "selftest: expected sat, got %v", r)
	}
	if v, ok := smt.Eval(q, m); !ok || v != 1 {
		fatal(2, "selftest: evaluator disagrees with solver model %v", m)
	}
	// x < y ∧ y < x is unsat
	r, _ = sol.Check(c.And(c.Cmp(smt.OpSLt, x, y), c.Cmp(smt.OpSLt, y, x)), false, nil)
	if r != smt.Unsat {
		fatal(2, "selftest: expected unsat, got %v", r)
	}
	// random constant folding vs solver
	rng := rand.New(rand.NewSource(1))
	ops := []smt.Op{smt.OpAdd, smt.OpSub, smt.OpMul, smt.OpUDiv, smt.OpSDiv, smt.OpURem, smt.OpSRem, smt.OpAnd, smt.OpOr, smt.OpXor, smt.OpShl, smt.OpLShr, smt.OpAShr}
	for i := 0; i < 200; i++ {
		w := []uint8{8, 16, 32, 64}[rng.Intn(4)]
		a, b := rng.Uint64(), rng.Uint64()
		if i%5 == 0 {
			b = uint64(rng.Intn(70))
		}
		if i%7 == 0 {
			b = 0
		}
		op := ops[rng.Intn(len(ops))]
		va, vb := c.Var(fmt.Sprintf("a%d", i), w), c.Var(fmt.Sprintf("b%d", i), w)
		folded := c.Bin(op, c.BV(a, w), c.BV(b, w))
		q := c.And(c.And(c.Cmp(smt.OpEq, va, c.BV(a, w)), c.Cmp(smt.OpEq, vb, c.BV(b, w))), c.Not(c.Cmp(smt.OpEq, c.Bin(op, va, vb), folded)))
		if r, _ := sol.Check(q, false, nil); r != smt.Unsat {
			fatal(2, "selftest: constant folding of op %d width %d on %d,%d disagrees with the solver", op, w, a, b)
		}
	}
	fmt.Println("selftest ok: solver", solverArgv())
}
