package main

import (
	"bufio"
	"bytes"
	"os/exec"
	"encoding/json"
	"flag"
	"fmt"
	"os"
	"path/filepath"
	"sort"
	"strconv"
	"strings"
	"time"

	"gosx/interp"
)

// ---- registry ----

type regRun struct {
	Fn      string         `json:"fn"`
	Params  map[string]int `json:"params"`
	Explore bool           `json:"explore"`
	PB      *int           `json:"pb"`
	Race    bool           `json:"race"`
	Expect  []string       `json:"expect"`  // cover labels that must be reached (vacuity guard)
	Budget  string         `json:"budget"`  // wall clock cap for this run
	Note    string         `json:"note"`
	Unwind  int            `json:"unwind"`
}

type regProp struct {
	Quick    []regRun `json:"quick"`
	Thorough []regRun `json:"thorough"`
	Bounds   map[string]string `json:"bounds"`
	Assumptions []string `json:"assumptions"`
	Outside  []string `json:"outside"`
	// violations of these classes are attributed to the property (default: all of PANIC, DEADLOCK, RACE)
}

type finding struct {
	Status    string `json:"status"` // open | fixed
	Property  string `json:"property"`
	Signature string `json:"signature"`
	What      string `json:"what"`
	Commit    string `json:"commit,omitempty"`
}

func loadFindings() []finding {
	var out []finding
	f, err := os.Open(filepath.Join(verifRoot, "known_findings.jsonl"))
	if err != nil {
		return nil
	}
	defer f.Close()
	sc := bufio.NewScanner(f)
	sc.Buffer(make([]byte, 1<<20), 1<<20)
	for sc.Scan() {
		line := strings.TrimSpace(sc.Text())
		if line == "" || strings.HasPrefix(line, "#") {
			continue
		}
		var fd finding
		if json.Unmarshal([]byte(line), &fd) == nil {
			out = append(out, fd)
		}
	}
	return out
}

type runEvidence struct {
	Fn          string         `json:"harness"`
	Params      map[string]int `json:"params"`
	Scheduler   string         `json:"scheduler"`
	Paths       int            `json:"paths"`
	PathsOK     int            `json:"paths_completed"`
	PathsPruned int            `json:"paths_pruned_by_assume"`
	Instrs      int            `json:"ssa_instructions_executed"`
	Decisions   int            `json:"decisions"`
	SchedPoints int            `json:"scheduling_points"`
	BranchQ     int            `json:"branch_queries"`
	AssertQ     int            `json:"assertion_queries"`
	ModelHits   int            `json:"branch_decided_by_cached_model"`
	Oblig       int            `json:"obligations"`
	Discharged  int            `json:"discharged"`
	Violations  int            `json:"violations_raw"`
	SolverS     float64        `json:"solver_time_s"`
	WallS       float64        `json:"wall_s"`
	Exhaustive  bool           `json:"exhaustive"`
	Cover       []string       `json:"cover_labels"`
	Note        string         `json:"note,omitempty"`
}

func cmdCheck(args []string) {
	fs := flag.NewFlagSet("check", flag.ExitOnError)
	prop := fs.String("prop", "", "property id")
	tier := fs.String("tier", "quick", "quick|thorough")
	workers := fs.Int("j", 16, "workers")
	fs.Parse(args)
	if t := os.Getenv("VERIF_TIER"); t != "" && *tier == "" {
		*tier = t
	}
	seed := int64(0)
	if s := os.Getenv("VERIF_SEED"); s != "" {
		seed, _ = strconv.ParseInt(s, 10, 64)
	}
	t0 := time.Now()
	var reg map[string]regProp
	b, err := os.ReadFile(filepath.Join(harnessDir(), "registry.json"))
	if err != nil {
		fatal(2, "registry: %v", err)
	}
	if err := json.Unmarshal(b, &reg); err != nil {
		fatal(2, "registry: %v", err)
	}
	rp, ok := reg[*prop]
	if !ok {
		fatal(2, "property %s not in registry", *prop)
	}
	runs := rp.Quick
	if *tier == "thorough" && len(rp.Thorough) > 0 {
		runs = rp.Thorough
	}
	evPath := filepath.Join(verifRoot, "evidence", *prop+".json")
	if d := os.Getenv("VERIF_EVIDENCE_DIR"); d != "" { // runs against scratch copies of the repository (seed / neutral checks) keep their evidence apart
		os.MkdirAll(d, 0o755)
		evPath = filepath.Join(d, *prop+".json")
	}
	os.MkdirAll(filepath.Dir(evPath), 0o755)
	os.Remove(evPath)

	ld := load()
	fmt.Printf("[%s %s] loaded %s + harness in %.1fs\n", *prop, *tier, repoRoot, ld.loadS)

	maxCross, maxSamples := 25, 8
	if *tier == "thorough" {
		maxCross, maxSamples = 150, 16
	}
	var cross []interp.CrossQuery
	var inconclusive []string
	var allViol []interp.Violation
	var revs []runEvidence
	funcs := map[string]*interp.FuncInfo{}
	stubs := map[string]int{}
	var samples []*interp.ReplayModel
	tot := struct{ paths, dec, oblig, disch, nontriv, queries, sat, unsat, unknown int }{}
	solverS := 0.0
	exhaustive := true
	knownSigs := map[string]bool{}
	for _, f := range loadFindings() {
		if f.Status == "open" && f.Property == *prop {
			knownSigs[f.Signature] = true
		}
	}
	for _, r := range runs {
		fn := ld.hp.Func(r.Fn)
		if fn == nil {
			fatal(2, "registry names unknown harness %s", r.Fn)
		}
		pb := -1
		if r.PB != nil {
			pb = *r.PB
		}
		var budget time.Duration
		if r.Budget != "" {
			budget, _ = time.ParseDuration(r.Budget)
		}
		ex := interp.NewExplorer(ld.prog, interp.RunConfig{Fn: fn, Name: r.Fn, Params: r.Params, Explore: r.Explore, PB: pb, Race: r.Race,
			Workers: *workers, Budget: budget, SolverArgv: solverArgv(), Seed: seed, MaxSamples: maxSamples, Unwind: r.Unwind, MaxCross: maxCross, KnownSigs: knownSigs})
		ex.Run()
		sched := "seq"
		if r.Explore {
			sched = fmt.Sprintf("explore(pb=%d)", pb)
		}
		var cov []string
		for c := range ex.Cover {
			cov = append(cov, c)
		}
		sort.Strings(cov)
		re := runEvidence{Fn: r.Fn, Params: r.Params, Scheduler: sched, Paths: ex.Paths, PathsOK: ex.OKPaths, PathsPruned: ex.Aborted, Instrs: ex.Total.Instrs,
			Decisions: ex.Total.Decisions, SchedPoints: ex.Total.SchedPoints, BranchQ: ex.Total.BranchQueries, AssertQ: ex.Total.AssertQueries, ModelHits: ex.Total.ModelHits,
			Oblig: ex.Total.Obligations, Discharged: ex.Total.Discharged, Violations: len(ex.Violations), SolverS: ex.SolverTime.Seconds(), WallS: ex.Wall.Seconds(),
			Exhaustive: ex.Exhaustive, Cover: cov, Note: r.Note}
		revs = append(revs, re)
		fmt.Printf("[%s] %s %v %s: paths=%d ok=%d pruned=%d oblig=%d discharged=%d viol=%d instrs=%d branchQ=%d assertQ=%d solver=%.1fs wall=%.1fs exhaustive=%v\n",
			*prop, r.Fn, r.Params, sched, ex.Paths, ex.OKPaths, ex.Aborted, ex.Total.Obligations, ex.Total.Discharged, len(ex.Violations), ex.Total.Instrs, ex.Total.BranchQueries, ex.Total.AssertQueries, ex.SolverTime.Seconds(), ex.Wall.Seconds(), ex.Exhaustive)
		for _, inc := range ex.Inconclusive {
			inconclusive = append(inconclusive, r.Fn+": "+inc)
		}
		for _, lbl := range r.Expect {
			if !ex.Cover[lbl] {
				inconclusive = append(inconclusive, fmt.Sprintf("%s: vacuity guard: cover label %q never reached", r.Fn, lbl))
			}
		}
		if ex.Total.Obligations == 0 {
			inconclusive = append(inconclusive, r.Fn+": vacuity guard: no assertion evaluated")
		}
		if ex.Total.Unknown > 0 {
			inconclusive = append(inconclusive, fmt.Sprintf("%s: %d solver answers unknown", r.Fn, ex.Total.Unknown))
		}
		for _, v := range ex.Violations {
			if v.Prop == *prop || v.Prop == "PANIC" || v.Prop == "DEADLOCK" || v.Prop == "RACE" {
				allViol = append(allViol, v)
			}
		}
		for k, fi := range ex.Funcs {
			if o, ok := funcs[k]; ok {
				o.Calls += fi.Calls
			} else {
				funcs[k] = fi
			}
		}
		for k, n := range ex.Stubs {
			stubs[k] += n
		}
		samples = append(samples, ex.Samples...)
		cross = append(cross, ex.Cross...)
		tot.paths += ex.Paths
		tot.dec += ex.Total.Decisions + ex.Total.SchedPoints
		tot.oblig += ex.Total.Obligations
		tot.disch += ex.Total.Discharged
		tot.nontriv += ex.Nontrivial
		tot.queries += ex.SolverStats.Queries
		tot.sat += ex.SolverStats.Sat
		tot.unsat += ex.SolverStats.Unsat
		tot.unknown += ex.SolverStats.Unknown
		solverS += ex.SolverTime.Seconds()
		exhaustive = exhaustive && ex.Exhaustive
	}

	// ---- cross-check of solver-decided assertion queries with independent solvers ----
	crossRes := map[string]interface{}{}
	for _, alt := range [][]string{{"z3", "-in"}, {"cvc5", "--incremental", "--lang=smt2"}} {
		agree, disagree, unknown := crossCheck(alt, cross)
		crossRes[alt[0]] = map[string]int{"queries": len(cross), "agree": agree, "disagree": disagree, "unknown_or_error": unknown}
		if disagree > 0 {
			inconclusive = append(inconclusive, fmt.Sprintf("solver disagreement: %s contradicts %s on %d of %d assertion queries", alt[0], solverArgv()[0], disagree, len(cross)))
		}
	}

	// ---- native cross-validation and replay ----
	findings := loadFindings()
	open := map[string]finding{}
	for _, f := range findings {
		if f.Status == "open" && f.Property == *prop {
			open[f.Signature] = f
		}
	}
	bySig := map[string][]interp.Violation{}
	var sigs []string
	needRace := false
	for _, v := range allViol {
		if _, ok := bySig[v.Sig]; !ok {
			sigs = append(sigs, v.Sig)
		}
		bySig[v.Sig] = append(bySig[v.Sig], v)
		if v.Prop == "RACE" {
			needRace = true
		}
	}
	sort.Strings(sigs)
	validated, mismatches := 0, 0
	var nb, nbRace *nativeBuild
	if len(samples) > 0 || len(sigs) > 0 {
		nb, err = buildNative(false)
		if err != nil {
			inconclusive = append(inconclusive, "native harness build failed: "+err.Error())
		} else {
			defer nb.cleanup()
		}
		if needRace {
			nbRace, err = buildNative(true)
			if err != nil {
				inconclusive = append(inconclusive, "native -race harness build failed: "+err.Error())
			} else {
				defer nbRace.cleanup()
			}
		}
	}
	var sampleOut []interface{}
	if nb != nil {
		for _, s := range samples {
			if len(s.Sched) > 0 && len(s.Gate) == 0 {
				continue // a schedule without gate information is not replayable natively; data-only and gated paths are
			}
			res := nb.run(s, "")
			same := res.Done && len(res.Failures) == 0 && equalStrs(res.Obs, s.Obs)
			if same {
				validated++
			} else {
				mismatches++
				inconclusive = append(inconclusive, fmt.Sprintf("cross-validation mismatch on a passing path of %s: engine obs=%v native obs=%v failures=%v done=%v", s.Fn, s.Obs, res.Obs, res.Failures, res.Done))
			}
		}
	}
	for i, s := range samples {
		if i < 6 {
			sampleOut = append(sampleOut, map[string]interface{}{"harness": s.Fn, "params": s.Params, "inputs": s.Vals, "byte_inputs": s.Bytes, "cid_ranks": s.Ranks, "observations": s.Obs, "schedule": s.Sched, "verdict": "all obligations discharged on this path"})
		}
	}
	nViol := 0
	var known []string
	exitCode := 0
	replayRoot := filepath.Join(verifRoot, "replays", *prop)
	os.RemoveAll(replayRoot)
	steerBuilds := map[bool]*nativeBuild{}
	steerFailed := false
	steeredConfirmed := 0
	for _, sig := range sigs {
		vs := bySig[sig]
		confirmed := false
		var dir string
		for k, v := range vs {
			maxTry := 3
			if v.Replay != nil && len(v.Replay.Sched) > 0 {
				maxTry = 8 // schedule-dependent: several explored schedules lead to the same violation, some replay more directly
			}
			if k >= maxTry || v.Replay == nil {
				break
			}
			dir = filepath.Join(replayRoot, fmt.Sprintf("%s-%d", v.Harness, len(known)+nViol))
			b := nb
			if v.Prop == "RACE" {
				b = nbRace
			}
			if b == nil {
				break
			}
			res := b.run(v.Replay, dir)
			if !res.confirms(sig) && len(v.Replay.Sync) > 0 && !steerFailed {
				// schedule-dependent: impose the recorded schedule of acquire operations in the steered build
				isRace := v.Prop == "RACE"
				sb := steerBuilds[isRace]
				if sb == nil {
					var err error
					if sb, err = buildNativeSteered(isRace); err != nil {
						steerFailed = true
						fmt.Fprintf(os.Stderr, "[%s] steered replay build failed (falling back to gates and stress): %v\n", *prop, err)
					} else {
						steerBuilds[isRace] = sb
					}
				}
				if sb != nil {
					if r2 := sb.run(v.Replay, dir); r2.confirms(sig) {
						res = r2
						steeredConfirmed++
					} else {
						res.Output += "\n---- steered replay ----\n" + r2.Output
					}
				}
			}
			os.WriteFile(filepath.Join(dir, "native_output.txt"), []byte(res.Output), 0o644)
			os.WriteFile(filepath.Join(dir, "README.txt"), []byte(fmt.Sprintf("counterexample for %s\nsignature: %s\nharness: %s\nre-run: cd /verif && ./check --replay %s\n", *prop, sig, v.Harness, dir)), 0o644)
			if res.confirms(sig) {
				confirmed = true
				validated++
				break
			}
		}
		if !confirmed && len(vs) > 0 && vs[0].Replay != nil && len(vs[0].Replay.Sched) > 0 {
			// schedule-dependent and not steerable through gates: stress the same scenario with real goroutines
			b := nb
			if vs[0].Prop == "RACE" {
				b = nbRace
			}
			if b != nil {
				res := b.stress(vs[0].Replay, dir, 500)
				os.WriteFile(filepath.Join(dir, "native_output.txt"), []byte(res.Output), 0o644)
				if res.confirms(sig) {
					confirmed = true
					validated++
				}
			}
		}
		switch {
		case !confirmed:
			inconclusive = append(inconclusive, fmt.Sprintf("counterexample not reproduced natively (engine or stub defect?): %s (%d paths)", sig, len(vs)))
		case open[sig].Signature != "":
			known = append(known, sig)
			fmt.Printf("KNOWN-FINDING: property=%s %s [%s] (%d paths)\n", *prop, open[sig].What, sig, len(vs))
		default:
			nViol++
			exitCode = 1
			fmt.Printf("VIOLATION property=%s replay=%s\n", *prop, dir)
			fmt.Printf("  signature: %s (%d paths)\n", sig, len(vs))
			if vs[0].Replay != nil {
				fmt.Printf("  inputs: %v %v\n", vs[0].Replay.Vals, vs[0].Replay.Bytes)
			}
			sampleOut = append(sampleOut, map[string]interface{}{"violation": sig, "inputs": vs[0].Replay.Vals, "byte_inputs": vs[0].Replay.Bytes, "replay": dir})
		}
	}
	if len(sampleOut) == 0 {
		sampleOut = append(sampleOut, "no sample recorded")
	}

	// ---- evidence ----
	var fl []map[string]interface{}
	var fnames []string
	for k := range funcs {
		fnames = append(fnames, k)
	}
	sort.Strings(fnames)
	modFuncs := 0
	for _, k := range fnames {
		fi := funcs[k]
		isMod := !strings.HasPrefix(fi.File, "/") && !strings.HasPrefix(fi.File, "zz_verif") && !strings.HasPrefix(fi.File, "internal/vx")
		if isMod {
			modFuncs++
		}
		if isMod || len(fnames) < 150 {
			fl = append(fl, map[string]interface{}{"func": k, "file": fi.File, "ssa_instrs": fi.Instrs, "calls": fi.Calls})
		}
	}
	var stubList []string
	for k := range stubs {
		if !strings.Contains(k, "internal/vx.") {
			stubList = append(stubList, k)
		}
	}
	sort.Strings(stubList)
	ev := map[string]interface{}{
		"property_id": *prop,
		"tier":        *tier,
		"seed":        seed,
		"level":       "model_checking",
		"wall_s":      time.Since(t0).Seconds(),
		"violations":  nViol,
		"assumptions": append(append([]string{}, rp.Assumptions...), "stubs hit (documented contracts, see DESIGN.md §3.2): "+strings.Join(stubList, ", ")),
		"coverage": map[string]interface{}{
			"states":                        tot.paths,
			"transitions":                   tot.dec,
			"traces_validated_against_impl": validated,
			"samples":                       sampleOut,
			"exhaustive":                    exhaustive && len(inconclusive) == 0,
			"obligations":                   tot.oblig,
			"discharged":                    tot.disch,
			"evaluations":                   tot.paths,
			"distinct_nontrivial":           tot.nontriv,
			"rule":                          "one evaluation = one explored path of the real SSA (distinct decision prefix: symbolic branch outcomes, vx.Choice values, concretisations, schedule choices); non-trivial = the path needed at least one solver decision or solver-discharged obligation",
			"explanation":                   "bounded symbolic execution of /repo's current go/ssa with z3 deciding every symbolic branch and every assertion (unsat of path-condition ∧ ¬assertion); states = explored paths, transitions = decisions taken",
			"technique":                     "SSA symbolic execution + SMT (QF_BV), exhaustive path enumeration within the stated bounds, native replay of counterexamples and of sampled passing paths",
			"bounds":                        rp.Bounds,
			"outside_claim":                 rp.Outside,
			"runs":                          revs,
			"functions_encoded":             fl,
			"module_functions_encoded":      modFuncs,
			"queries":                       map[string]int{"total": tot.queries, "sat": tot.sat, "unsat": tot.unsat, "unknown": tot.unknown},
			"solver_time_s":                 solverS,
			"solver":                        strings.Join(solverArgv(), " "),
			"load_s":                        ld.loadS,
			"cross_validation_mismatches":   mismatches,
			"cross_solver_check":            crossRes,
			"known_findings":                known,
			"inconclusive":                  inconclusive,
		},
	}
	eb, _ := json.MarshalIndent(ev, "", " ")
	if err := os.WriteFile(evPath, eb, 0o644); err != nil {
		fatal(2, "write evidence: %v", err)
	}
	for _, inc := range inconclusive {
		fmt.Printf("INCONCLUSIVE: %s\n", inc)
	}
	fmt.Printf("[%s %s] paths=%d obligations=%d discharged=%d validated_natively=%d violations=%d known=%d inconclusive=%d wall=%.1fs\n",
		*prop, *tier, tot.paths, tot.oblig, tot.disch, validated, nViol, len(known), len(inconclusive), time.Since(t0).Seconds())
	if exitCode == 0 && len(inconclusive) > 0 {
		exitCode = 2
	}
	exit(exitCode)
}

func equalStrs(a, b []string) bool {
	if len(a) != len(b) {
		return false
	}
	for i := range a {
		if a[i] != b[i] {
			return false
		}
	}
	return true
}

// crossCheck re-discharges the given assertion queries with another solver (one process, (reset) between
// queries) and compares the answers with the primary solver's.
func crossCheck(argv []string, qs []interp.CrossQuery) (agree, disagree, unknown int) {
	if len(qs) == 0 {
		return
	}
	cmd := exec.Command(argv[0], argv[1:]...)
	var in bytes.Buffer
	for _, q := range qs {
		in.WriteString("(push 1)\n")
		in.WriteString(q.Script)
		in.WriteString("(pop 1)\n")
	}
	cmd.Stdin = &in
	done := make(chan []byte, 1)
	go func() { out, _ := cmd.Output(); done <- out }()
	var out []byte
	select {
	case out = <-done:
	case <-time.After(180 * time.Second):
		if cmd.Process != nil {
			cmd.Process.Kill()
		}
		out = <-done
	}
	var answers []string
	for _, l := range strings.Split(string(out), "\n") {
		l = strings.TrimSpace(l)
		if l == "sat" || l == "unsat" || l == "unknown" || strings.HasPrefix(l, "(error") {
			answers = append(answers, l)
		}
	}
	for i, q := range qs {
		switch {
		case i >= len(answers) || answers[i] == "unknown" || strings.HasPrefix(answers[i], "(error"):
			unknown++
		case answers[i] == q.Expect:
			agree++
		default:
			disagree++
		}
	}
	return
}
