package main

import (
	"fmt"
	"go/ast"
	"go/parser"
	"go/token"
	"os"
	"os/exec"
	"path/filepath"
	"sort"
	"strings"
)

// Steered replay build: the module's files (and the harness's) are compiled with package sync and
// x/sync/semaphore substituted by the wrappers vsync / vsem, and `go` statements by vsync.Go, so that a
// schedule found by the exploring scheduler can be imposed at the acquire-type operations. The substitution
// is textual, made from /repo's current sources at replay time, and keeps every line number.

const (
	vsyncPath = "berty.tech/go-ipfs-log/internal/vx/vsync"
	vsemPath  = "berty.tech/go-ipfs-log/internal/vx/vsem"
)

type edit struct {
	from, to int
	text     string
}

// steerRewrite returns the rewritten source of one file, or ok=false if nothing needs rewriting.
func steerRewrite(src []byte) (out []byte, ok bool, err error) {
	fset := token.NewFileSet()
	f, err := parser.ParseFile(fset, "x.go", src, parser.ParseComments)
	if err != nil {
		return nil, false, err
	}
	off := func(p token.Pos) int { return fset.Position(p).Offset }
	var edits []edit
	syncName := ""
	for _, im := range f.Imports {
		switch strings.Trim(im.Path.Value, `"`) {
		case "sync":
			name := "sync"
			if im.Name != nil {
				name = im.Name.Name
			}
			if name == "_" || name == "." {
				return nil, false, fmt.Errorf("unsupported import form of sync")
			}
			syncName = name
			edits = append(edits, edit{off(im.Pos()), off(im.End()), name + ` "` + vsyncPath + `"`})
		case "golang.org/x/sync/semaphore":
			name := "semaphore"
			if im.Name != nil {
				name = im.Name.Name
			}
			edits = append(edits, edit{off(im.Pos()), off(im.End()), name + ` "` + vsemPath + `"`})
		}
	}
	var gos []*ast.GoStmt
	ast.Inspect(f, func(n ast.Node) bool {
		if g, ok := n.(*ast.GoStmt); ok {
			gos = append(gos, g)
		}
		return true
	})
	if len(edits) == 0 && len(gos) == 0 {
		return nil, false, nil
	}
	goPkg := syncName
	if len(gos) > 0 && goPkg == "" {
		goPkg = "vxsync"
		// the import goes on the line of the package clause (a second import declaration is legal)
		edits = append(edits, edit{off(f.Name.End()), off(f.Name.End()), `; import vxsync "` + vsyncPath + `"`})
	}
	// innermost go statements first is not needed: nested go statements live inside function literals whose
	// text is copied verbatim, so only outermost ones are rewritten here and the inner ones by recursion
	sort.Slice(gos, func(i, j int) bool { return gos[i].Pos() < gos[j].Pos() })
	end := 0
	for _, g := range gos {
		if off(g.Pos()) < end {
			continue // nested in a go statement that is being rewritten: handled by the recursive call below
		}
		end = off(g.End())
		call := g.Call
		text := func(n ast.Node) string { return string(src[off(n.Pos()):off(n.End())]) }
		funText := text(call.Fun)
		if fl, isLit := call.Fun.(*ast.FuncLit); isLit {
			// rewrite go statements nested in the literal's body
			inner, changed, err := steerRewriteFragment(funText, goPkg)
			if err != nil {
				return nil, false, err
			}
			if changed {
				funText = inner
			}
			_ = fl
		}
		var b strings.Builder
		b.WriteString("{ _vxf := " + funText)
		var names []string
		for i, a := range call.Args {
			nm := fmt.Sprintf("_vxa%d", i)
			names = append(names, nm)
			b.WriteString("; " + nm + " := " + text(a))
		}
		if call.Ellipsis.IsValid() && len(names) > 0 {
			names[len(names)-1] += "..."
		}
		b.WriteString("; " + goPkg + ".Go(func() { _vxf(" + strings.Join(names, ", ") + ") }) }")
		edits = append(edits, edit{off(g.Pos()), off(g.End()), b.String()})
	}
	sort.Slice(edits, func(i, j int) bool { return edits[i].from < edits[j].from })
	var res []byte
	pos := 0
	for _, e := range edits {
		res = append(res, src[pos:e.from]...)
		res = append(res, e.text...)
		pos = e.to
	}
	res = append(res, src[pos:]...)
	return res, true, nil
}

// steerRewriteFragment rewrites the go statements inside the text of a function literal.
func steerRewriteFragment(lit string, goPkg string) (string, bool, error) {
	if !strings.Contains(lit, "go ") && !strings.Contains(lit, "go\t") {
		return lit, false, nil
	}
	const pre = "package p\nvar _ = "
	// the wrapper adds one line before the literal; only the literal's own text is taken back
	out, changed, err := steerRewriteWith([]byte(pre+lit), goPkg)
	if err != nil || !changed {
		return lit, false, err
	}
	return string(out[len(pre):]), true, nil
}

func steerRewriteWith(src []byte, goPkg string) ([]byte, bool, error) {
	fset := token.NewFileSet()
	f, err := parser.ParseFile(fset, "x.go", src, 0)
	if err != nil {
		return nil, false, err
	}
	var gos []*ast.GoStmt
	ast.Inspect(f, func(n ast.Node) bool {
		if g, ok := n.(*ast.GoStmt); ok {
			gos = append(gos, g)
		}
		return true
	})
	if len(gos) == 0 {
		return src, false, nil
	}
	off := func(p token.Pos) int { return fset.Position(p).Offset }
	sort.Slice(gos, func(i, j int) bool { return gos[i].Pos() < gos[j].Pos() })
	var res []byte
	pos, end := 0, 0
	for _, g := range gos {
		if off(g.Pos()) < end {
			continue
		}
		end = off(g.End())
		call := g.Call
		text := func(n ast.Node) string { return string(src[off(n.Pos()):off(n.End())]) }
		funText := text(call.Fun)
		if _, isLit := call.Fun.(*ast.FuncLit); isLit {
			if inner, changed, err := steerRewriteFragment(funText, goPkg); err != nil {
				return nil, false, err
			} else if changed {
				funText = inner
			}
		}
		var b strings.Builder
		b.WriteString("{ _vxf := " + funText)
		var names []string
		for i, a := range call.Args {
			nm := fmt.Sprintf("_vxa%d", i)
			names = append(names, nm)
			b.WriteString("; " + nm + " := " + text(a))
		}
		if call.Ellipsis.IsValid() && len(names) > 0 {
			names[len(names)-1] += "..."
		}
		b.WriteString("; " + goPkg + ".Go(func() { _vxf(" + strings.Join(names, ", ") + ") }) }")
		res = append(res, src[pos:off(g.Pos())]...)
		res = append(res, b.String()...)
		pos = off(g.End())
	}
	res = append(res, src[pos:]...)
	return res, true, nil
}

// steeredOverlay writes rewritten copies into dir and returns the overlay map for the steered build.
func steeredOverlay(dir string) (map[string]string, error) {
	ov := overlayFiles()
	for _, sub := range []string{"vsync", "vsem"} {
		fs, _ := filepath.Glob(filepath.Join(harnessDir(), "vx", sub, "*.go"))
		for _, f := range fs {
			ov[filepath.Join(repoRoot, "internal", "vx", sub, filepath.Base(f))] = f
		}
	}
	n := 0
	rewrite := func(virt, real string) error {
		src, err := os.ReadFile(real)
		if err != nil {
			return err
		}
		out, changed, err := steerRewrite(src)
		if err != nil {
			return fmt.Errorf("%s: %v", real, err)
		}
		if !changed {
			return nil
		}
		n++
		p := filepath.Join(dir, fmt.Sprintf("steer%03d_%s", n, filepath.Base(real)))
		if err := os.WriteFile(p, out, 0o644); err != nil {
			return err
		}
		ov[virt] = p
		return nil
	}
	// harness files (not the test file, not vx itself)
	for virt, real := range overlayFiles() {
		if strings.HasSuffix(real, "_test.go") || strings.Contains(virt, string(filepath.Separator)+"internal"+string(filepath.Separator)+"vx"+string(filepath.Separator)) {
			continue
		}
		if err := rewrite(virt, real); err != nil {
			return nil, err
		}
	}
	// the module's own files
	cmd := exec.Command("go", "list", "-f", `{{.Dir}}{{"\t"}}{{join .GoFiles ","}}`, "./...")
	cmd.Dir = repoRoot
	cmd.Env = goEnv()
	outb, err := cmd.Output()
	if err != nil {
		return nil, fmt.Errorf("go list: %v", err)
	}
	for _, line := range strings.Split(strings.TrimSpace(string(outb)), "\n") {
		parts := strings.SplitN(line, "\t", 2)
		if len(parts) != 2 || parts[1] == "" {
			continue
		}
		for _, gf := range strings.Split(parts[1], ",") {
			p := filepath.Join(parts[0], gf)
			if _, isOverlay := ov[p]; isOverlay {
				continue
			}
			if err := rewrite(p, p); err != nil {
				return nil, err
			}
		}
	}
	return ov, nil
}
