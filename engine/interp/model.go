package interp

import (
	"fmt"
	"go/token"
	"path/filepath"
	"sort"
	"strings"

	"gosx/smt"

	"golang.org/x/tools/go/ssa"
)

// ReplayModel is what the native vx package reads to replay one path.
type ReplayModel struct {
	Fn     string              `json:"fn"`
	Params map[string]int      `json:"params"`
	Vals   map[string]uint64   `json:"vals"`
	Bytes  map[string][]uint64 `json:"bytes"`
	Ranks  map[string]uint64   `json:"ranks"`
	Expect []string            `json:"expect,omitempty"`
	Obs    []string            `json:"obs,omitempty"`
	Sched  []int               `json:"sched,omitempty"`
	Sync   []SyncEvent         `json:"sync,omitempty"` // acquire-type operations issued from module code, in scheduler order (explore mode)
	Gate   []string            `json:"gate,omitempty"` // order in which gated goroutines entered their next critical section
	ByteRanks map[string]uint64 `json:"byte_ranks,omitempty"` // symbolic order of opaque byte strings (public keys), by term key
}

type namedInput struct {
	name  string
	t     *smt.Term   // scalar
	conc  uint64      // when t == nil
	bytes []*smt.Term // byte string (nil for scalars)
	isB   bool
}

type obsRec struct {
	key string
	v   Value
}

func (in *Interp) recordScalar(name string, t *smt.Term, conc uint64) {
	in.inputs = append(in.inputs, namedInput{name: name, t: t, conc: conc})
}

func (in *Interp) recordBytes(name string, bs []*smt.Term) {
	in.inputs = append(in.inputs, namedInput{name: name, bytes: bs, isB: true})
}

// BuildReplay evaluates all named inputs under m.
func (in *Interp) BuildReplay(m smt.Model) *ReplayModel {
	r := &ReplayModel{Fn: in.HarnessName, Params: in.Params, Vals: map[string]uint64{}, Bytes: map[string][]uint64{}, Ranks: map[string]uint64{}}
	ev := func(t *smt.Term) uint64 {
		if t == nil {
			return 0
		}
		v, _ := smt.EvalDefault(t, m)
		return v
	}
	for _, ni := range in.inputs {
		if ni.isB {
			bs := make([]uint64, len(ni.bytes))
			for i, b := range ni.bytes {
				bs[i] = ev(b)
			}
			r.Bytes[ni.name] = bs
			continue
		}
		if ni.t != nil {
			v := ev(ni.t)
			if ni.t.W > 0 && ni.t.W < 64 {
				// sign-agnostic: native side truncates as needed
			}
			r.Vals[ni.name] = v
		} else {
			r.Vals[ni.name] = ni.conc
		}
	}
	for k, a := range in.atomTab {
		if strings.HasPrefix(k, "cid/") {
			r.Ranks[strings.TrimPrefix(k, "cid/")] = ev(a.RankOf(in, "str"))
		}
	}
	for k, a := range in.atomTab {
		if strings.HasPrefix(k, "bytes/") {
			if r.ByteRanks == nil {
				r.ByteRanks = map[string]uint64{}
			}
			r.ByteRanks[strings.TrimPrefix(k, "bytes/")] = ev(a.RankOf(in, "bin"))
		}
	}
	for _, o := range in.obs {
		r.Obs = append(r.Obs, o.key+"="+in.obsString(o.v, m))
	}
	r.Sched = append(r.Sched, in.schedTrace...)
	r.Gate = append(r.Gate, in.gateOrder...)
	r.Sync = append(r.Sync, in.syncTrace...)
	return r
}

func (in *Interp) obsString(v Value, m smt.Model) string {
	switch v.K {
	case KInt:
		if v.R != nil {
			x, _ := smt.EvalDefault(v.R.(*smt.Term), m)
			return fmt.Sprint(sextW(x, v.W))
		}
		return fmt.Sprint(sextW(v.N, v.W))
	case KBool:
		if v.R != nil {
			x, _ := smt.EvalDefault(v.R.(*smt.Term), m)
			return fmt.Sprint(x == 1)
		}
		return fmt.Sprint(v.N == 1)
	case KStr:
		if s, ok := v.ConcStr(); ok {
			return s
		}
		bs, ok := in.ropeBytes(v)
		if ok {
			out := make([]byte, len(bs))
			for i, b := range bs {
				x, _ := smt.EvalDefault(b, m)
				out[i] = byte(x)
			}
			return string(out)
		}
		return "<opaque>"
	}
	return "<?>"
}

// ---- source positions / panic signatures ----

func (in *Interp) posOf(fr *Frame) token.Position {
	if fr == nil || fr.Fn == nil {
		return token.Position{}
	}
	pc := fr.pc - 1
	if pc < 0 {
		pc = 0
	}
	for i := pc; i >= 0; i-- {
		if i < len(fr.blk.Instrs) {
			if p := fr.blk.Instrs[i].Pos(); p.IsValid() {
				return in.Prog.Fset.Position(p)
			}
		}
	}
	return in.Prog.Fset.Position(fr.Fn.Pos())
}

func isHarnessFn(fn *ssa.Function) bool {
	p := fnPkgPath(fn)
	return strings.HasSuffix(p, "/zz_verif") || strings.HasSuffix(p, "/internal/vx")
}

func fnPkgPath(fn *ssa.Function) string {
	for fn != nil {
		if fn.Pkg != nil {
			return fn.Pkg.Pkg.Path()
		}
		if o := fn.Origin(); o != nil && o != fn {
			fn = o
			continue
		}
		fn = fn.Parent()
	}
	return ""
}

// panicSite: file:line of the innermost frame that belongs to the module under test (not harness).
func (in *Interp) panicSite(g *G) string {
	var fallback string
	for fr := g.top; fr != nil; fr = fr.caller {
		if fr.Fn == nil {
			continue
		}
		pos := in.posOf(fr)
		site := fmt.Sprintf("%s:%d", relRepo(pos.Filename), pos.Line)
		if fallback == "" {
			fallback = site
		}
		pp := fnPkgPath(fr.Fn)
		if strings.HasPrefix(pp, "berty.tech/go-ipfs-log") && !isHarnessFn(fr.Fn) {
			return site
		}
	}
	return fallback
}

// RepoRoot is the root of the tree under test (source positions are reported relative to it).
var RepoRoot = "/repo"

func relRepo(f string) string {
	if r, err := filepath.Rel(RepoRoot, f); err == nil && !strings.HasPrefix(r, "..") {
		return r
	}
	return f
}

// PanicKind normalises a panic message to a class shared by engine and native runtime.
func PanicKind(msg string) string {
	l := strings.ToLower(msg)
	for _, k := range []string{"slice bounds out of range", "index out of range", "nil pointer dereference", "nil map", "interface conversion", "divide by zero", "closed channel", "negative", "unlock of unlocked", "makeslice", "nil function", "nil interface"} {
		if strings.Contains(l, k) {
			if k == "nil function" || k == "nil interface" {
				return "nil pointer dereference"
			}
			return k
		}
	}
	return "explicit panic"
}

func sortedKeys(m map[string]bool) []string {
	var out []string
	for k := range m {
		out = append(out, k)
	}
	sort.Strings(out)
	return out
}

// whereAmI: call chain (innermost first, 4 frames) of the current goroutine, for diagnostics.
func (in *Interp) whereAmI() string {
	g := in.cur
	if g == nil {
		return "?"
	}
	var parts []string
	for fr := g.top; fr != nil && len(parts) < 5; fr = fr.caller {
		if fr.Fn == nil {
			continue
		}
		pos := in.posOf(fr)
		parts = append(parts, fmt.Sprintf("%s (%s:%d)", fr.Fn.String(), relRepo(pos.Filename), pos.Line))
	}
	return strings.Join(parts, " <- ")
}
