package interp

import (
	"go/token"
	"go/types"
)

// ---- context.Context model ----
//
// A context is an interface value of the engine-private dynamic type ctxType around a *ctxSt.
// Done() returns a channel that is closed when the context is cancelled or its timer fires; a timer
// fires only when no goroutine can run (policy "timeouts expire after everything else has happened"),
// or, with TimerAnywhere, at any scheduling point (a decision variable).

var ctxType = types.NewNamed(types.NewTypeName(token.NoPos, nil, "engineContext", nil), types.NewStruct(nil, nil), nil)

type ctxSt struct {
	done     *ChanV
	err      Value
	parent   *ctxSt
	children []*ctxSt
	timer    bool // has a pending timer
	fired    bool
	hasDL    bool  // created with a deadline (WithTimeout)
	dur      int64 // the timeout in ns when it was concrete, else -1
}

func (in *Interp) ctxValue(c *ctxSt) Value {
	return Value{K: KIface, R: &IfaceV{T: ctxType, V: Value{K: KOpaque, R: c}}}
}

func ctxOf(v Value) *ctxSt {
	if v.R == nil {
		return nil
	}
	iv, ok := v.R.(*IfaceV)
	if !ok {
		return nil
	}
	c, _ := iv.V.R.(*ctxSt)
	return c
}

func (in *Interp) cancelCtx(c *ctxSt, err Value) {
	if c.done.closed {
		return
	}
	c.done.closed = true
	c.err = err
	c.timer = false
	for _, ch := range c.children {
		in.cancelCtx(ch, err)
	}
}

// ctxErr is the value of the context package's error variable (so that errors.Is and == work on it).
func (in *Interp) ctxErr(global, msg string) Value {
	if p := in.Prog.ImportedPackage("context"); p != nil {
		if g := p.Var(global); g != nil {
			return copyVal(*in.global(g))
		}
	}
	return in.newErr(msg, Value{})
}

func (in *Interp) newChildCtx(parent *ctxSt) *ctxSt {
	c := &ctxSt{done: &ChanV{}, parent: parent}
	if parent != nil {
		parent.children = append(parent.children, c)
		if parent.done != nil && parent.done.closed {
			c.done.closed = true
			c.err = parent.err
		}
	}
	in.ctxs = append(in.ctxs, c)
	return c
}

// fireTimer fires one pending timer (the oldest); reports whether one fired.
//
// Logical time does not advance in the model: all timers count from the same instant, so the pending timer
// with the smallest (concrete) timeout fires first; timers with a symbolic timeout fire in creation order
// after the concrete ones.
func (in *Interp) fireTimer() bool {
	var best *ctxSt
	for _, c := range in.ctxs {
		if c.timer && !c.done.closed {
			if best == nil || (c.dur >= 0 && (best.dur < 0 || c.dur < best.dur)) {
				best = c
			}
		}
	}
	if best == nil {
		return false
	}
	best.fired = true
	in.cancelCtx(best, in.ctxErr("DeadlineExceeded", "context deadline exceeded"))
	in.Cover["timer-fired"] = true
	return true
}

func (in *Interp) ctxMethod(name string) Value {
	return Value{K: KFunc, R: &Intrinsic{Name: "context." + name, F: func(in *Interp, fr *Frame, a []Value) (Value, bool) {
		c, _ := a[0].R.(*ctxSt)
		switch name {
		case "Done":
			if c == nil || c.done == nil {
				return Value{K: KChan}, true // Background: nil channel, never ready
			}
			return Value{K: KChan, R: c.done}, true
		case "Err":
			if c == nil || c.done == nil || !c.done.closed {
				return nilErr, true
			}
			return c.err, true
		case "Value":
			return Value{K: KIface}, true
		case "Deadline":
			for p := c; p != nil; p = p.parent {
				if p.hasDL {
					return tuple(Value{K: KOpaque, R: poison("time")}, mkBool(true)), true // the instant itself is not modelled
				}
			}
			return tuple(Value{K: KOpaque, R: poison("time")}, mkBool(false)), true
		}
		unsupported("context method %s", name)
		return Value{}, true
	}}}
}

func init() {
	ix := map[string]ixFn{
		"context.Background": func(in *Interp, fr *Frame, a []Value) (Value, bool) {
			return in.ctxValue(&ctxSt{}), true
		},
		"context.TODO": func(in *Interp, fr *Frame, a []Value) (Value, bool) {
			return in.ctxValue(&ctxSt{}), true
		},
		"context.WithCancel": func(in *Interp, fr *Frame, a []Value) (Value, bool) {
			c := in.newChildCtx(ctxOf(a[0]))
			return tuple(in.ctxValue(c), in.cancelFunc(c)), true
		},
		"context.WithTimeout": func(in *Interp, fr *Frame, a []Value) (Value, bool) {
			c := in.newChildCtx(ctxOf(a[0]))
			c.timer, c.hasDL, c.dur = true, true, -1
			if a[1].R == nil {
				c.dur = sextW(a[1].N, 64)
			}
			return tuple(in.ctxValue(c), in.cancelFunc(c)), true
		},
	}
	for k, f := range ix {
		intrinsics[k] = f
	}
}

func (in *Interp) cancelFunc(c *ctxSt) Value {
	return Value{K: KFunc, R: &Intrinsic{Name: "context.CancelFunc", F: func(in *Interp, fr *Frame, a []Value) (Value, bool) {
		in.cancelCtx(c, in.ctxErr("Canceled", "context canceled"))
		return Value{}, true
	}}}
}

// ---- sync.Map: an engine map per instance (atomic operations) ----

func (in *Interp) syncMapOf(p Value) *MapV {
	k := p.R.(*Value)
	if m, ok := in.side[k].(*MapV); ok {
		return m
	}
	m := newMap()
	in.side[k] = m
	return m
}

func init() {
	ix := map[string]ixFn{
		"(*sync.Map).Load": func(in *Interp, fr *Frame, a []Value) (Value, bool) {
			m := in.syncMapOf(a[0])
			in.raceAcquire(m)
			if i, ok := in.mapFind(in.cur, m, a[1]); ok {
				return tuple(m.Vals[i], mkBool(true)), true
			}
			return tuple(Value{K: KIface}, mkBool(false)), true
		},
		"(*sync.Map).Store": func(in *Interp, fr *Frame, a []Value) (Value, bool) {
			m := in.syncMapOf(a[0])
			in.mapSet(in.cur, m, a[1], a[2])
			in.raceRelease(m)
			return Value{}, true
		},
		"(*sync.Map).LoadOrStore": func(in *Interp, fr *Frame, a []Value) (Value, bool) {
			m := in.syncMapOf(a[0])
			in.raceAcquire(m)
			if i, ok := in.mapFind(in.cur, m, a[1]); ok {
				return tuple(m.Vals[i], mkBool(true)), true
			}
			in.mapSet(in.cur, m, a[1], a[2])
			in.raceRelease(m)
			return tuple(a[2], mkBool(false)), true
		},
		"(*sync.Map).Delete": func(in *Interp, fr *Frame, a []Value) (Value, bool) {
			m := in.syncMapOf(a[0])
			in.mapDel(in.cur, m, a[1])
			in.raceRelease(m)
			return Value{}, true
		},
		"(*sync.Map).LoadAndDelete": func(in *Interp, fr *Frame, a []Value) (Value, bool) {
			m := in.syncMapOf(a[0])
			in.raceAcquire(m)
			if i, ok := in.mapFind(in.cur, m, a[1]); ok {
				v := m.Vals[i]
				in.mapDel(in.cur, m, a[1])
				return tuple(v, mkBool(true)), true
			}
			return tuple(Value{K: KIface}, mkBool(false)), true
		},
	}
	for k, f := range ix {
		intrinsics[k] = f
	}
}
