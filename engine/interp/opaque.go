package interp

import (
	"fmt"
	"strings"

	"gosx/smt"
)

// OTerm is an opaque constructor term: the result of an idealised injective function (signature, digest,
// sealed box, hex/base64 text of an opaque value, raw key bytes, JSON/CBOR document ...). Two terms are
// equal iff they have the same constructor and pairwise equal arguments; arguments are OTerms, Values
// (ints, booleans, ropes - compared by a formula), *Atom or Go strings/ints (compared concretely).
type OTerm struct {
	Ctor string
	Args []interface{}
}

func ot(ctor string, args ...interface{}) *OTerm { return &OTerm{Ctor: ctor, Args: args} }

// opqStr / opqBytes wrap a term as a string / []byte value.
func opqStr(t *OTerm) Value { return Value{K: KStr, R: &Rope{Segs: []Seg{{Opq: t}}}} }
func opqBytes(t *OTerm) Value {
	return Value{K: KSlice, R: &SliceV{S: []Value{{K: KOpaque, R: &OpaqueBytes{T: t}}}}}
}

// opaqueOfBytes returns the opaque term carried by a []byte value, if it is one.
func opaqueOfBytes(v Value) (*OTerm, bool) {
	if v.K != KSlice || v.R == nil {
		return nil, false
	}
	s := v.R.(*SliceV).S
	if len(s) == 1 && s[0].K == KOpaque {
		if ob, ok := s[0].R.(*OpaqueBytes); ok {
			if ob.T != nil {
				return ob.T, true
			}
			return ot("atom", ob.A, ob.Tag), true
		}
	}
	return nil, false
}

// opaqueOfStr returns the opaque term of a string that consists of exactly one opaque segment.
func opaqueOfStr(v Value) (*OTerm, bool) {
	if r, ok := v.R.(*Rope); ok && len(r.Segs) == 1 {
		if r.Segs[0].Opq != nil {
			return r.Segs[0].Opq, true
		}
		if r.Segs[0].Atom != nil {
			return ot("atom", r.Segs[0].Atom, r.Segs[0].Tag), true
		}
	}
	return nil, false
}

func (in *Interp) argEq(a, b interface{}) *smt.Term {
	c := in.Ctx
	switch x := a.(type) {
	case *OTerm:
		y, ok := b.(*OTerm)
		if !ok {
			return c.F
		}
		return in.otermEq(x, y)
	case *Atom:
		y, ok := b.(*Atom)
		return c.Bool(ok && x == y)
	case string:
		y, ok := b.(string)
		return c.Bool(ok && x == y)
	case int:
		y, ok := b.(int)
		return c.Bool(ok && x == y)
	case bool:
		y, ok := b.(bool)
		return c.Bool(ok && x == y)
	case Value:
		y, ok := b.(Value)
		if !ok {
			return c.F
		}
		return in.valueEqTerm(x, y)
	case nil:
		return c.Bool(b == nil)
	}
	panic(fmt.Sprintf("argEq: %T", a))
}

func (in *Interp) otermEq(a, b *OTerm) *smt.Term {
	c := in.Ctx
	if a == b {
		return c.T
	}
	if a.Ctor != b.Ctor || len(a.Args) != len(b.Args) {
		return c.F
	}
	res := c.T
	for i := range a.Args {
		res = c.And(res, in.argEq(a.Args[i], b.Args[i]))
		if res == c.F {
			return res
		}
	}
	return res
}

// valueEqTerm: equality of two leaf values as a formula (ints, bools, strings, byte slices).
func (in *Interp) valueEqTerm(x, y Value) *smt.Term {
	c := in.Ctx
	if x.K != y.K {
		return c.F
	}
	switch x.K {
	case KInt, KBool:
		if x.K == KInt && x.W != y.W {
			return c.F
		}
		return c.Cmp(smt.OpEq, x.Term(c), y.Term(c))
	case KStr:
		return in.strEqTerm(x, y)
	case KSlice:
		return in.bytesEqTerm(x, y)
	case KInvalid:
		return c.T
	}
	panic(fmt.Sprintf("valueEqTerm kind %d", x.K))
}

// bytesEqTerm: equality of two []byte values, cell-wise: bytes against bytes, opaque chunks against opaque
// chunks; an opaque chunk never equals plain bytes (idealisation) and is never empty.
func (in *Interp) bytesEqTerm(x, y Value) *smt.Term {
	c := in.Ctx
	ux, uy := in.byteUnits(x), in.byteUnits(y)
	if len(ux) != len(uy) {
		return c.F
	}
	res := c.T
	for i := range ux {
		a, b := ux[i], uy[i]
		switch {
		case a.b != nil && b.b != nil:
			res = c.And(res, c.Cmp(smt.OpEq, a.b, b.b))
		case a.o != nil && b.o != nil:
			res = c.And(res, in.otermEq(a.o, b.o))
		default:
			return c.F
		}
		if res == c.F {
			return res
		}
	}
	return res
}

func (in *Interp) byteUnits(v Value) []ropeUnit {
	if v.R == nil {
		return nil
	}
	var out []ropeUnit
	for _, b := range v.R.(*SliceV).S {
		switch {
		case b.K == KOpaque:
			ob, ok := b.R.(*OpaqueBytes)
			if !ok {
				unsupported("byte slice with a non-byte cell")
			}
			if ob.T != nil {
				out = append(out, ropeUnit{o: ob.T})
			} else {
				out = append(out, ropeUnit{o: ot("atom", ob.A, ob.Tag)})
			}
		case b.K == KInt:
			out = append(out, ropeUnit{b: b.Term(in.Ctx)})
		default:
			unsupported("byte slice with a non-byte cell")
		}
	}
	return out
}

func (in *Interp) seqEq(a, b []*smt.Term) *smt.Term {
	c := in.Ctx
	if len(a) != len(b) {
		return c.F
	}
	res := c.T
	for i := range a {
		res = c.And(res, c.Cmp(smt.OpEq, a[i], b[i]))
	}
	return res
}

// strEqTerm: equality of two strings; ropes are compared segment-wise when their opaque segments align,
// byte-wise when they contain no opaque segment.
func (in *Interp) strEqTerm(x, y Value) *smt.Term {
	c := in.Ctx
	kx, okx := keyOf(x)
	ky, oky := keyOf(y)
	if okx && oky {
		return c.Bool(kx == ky)
	}
	bx, ok1 := in.ropeBytes(x)
	by, ok2 := in.ropeBytes(y)
	if ok1 && ok2 {
		return in.seqEq(bx, by)
	}
	// general case: flatten both ropes into units (single bytes, opaque values); an opaque unit never equals
	// plain bytes and is never empty, so equal strings have equal unit sequences
	ux, uy := in.ropeUnits(x), in.ropeUnits(y)
	if len(ux) != len(uy) {
		return c.F
	}
	res := c.T
	for i := range ux {
		a, b := ux[i], uy[i]
		switch {
		case a.b != nil && b.b != nil:
			res = c.And(res, c.Cmp(smt.OpEq, a.b, b.b))
		case a.o != nil && b.o != nil:
			res = c.And(res, in.otermEq(a.o, b.o))
		default:
			return c.F
		}
		if res == c.F {
			return res
		}
	}
	return res
}

type ropeUnit struct {
	b *smt.Term
	o *OTerm
}

func (in *Interp) ropeUnits(v Value) []ropeUnit {
	var out []ropeUnit
	for _, sg := range ropeOf(v).Segs {
		switch {
		case sg.Opq != nil:
			out = append(out, ropeUnit{o: sg.Opq})
		case sg.Atom != nil:
			out = append(out, ropeUnit{o: ot("atom", sg.Atom, sg.Tag)})
		case sg.Sym != nil:
			for _, t := range sg.Sym {
				out = append(out, ropeUnit{b: t})
			}
		default:
			for i := 0; i < len(sg.S); i++ {
				out = append(out, ropeUnit{b: in.Ctx.BV(uint64(sg.S[i]), 8)})
			}
		}
	}
	return out
}

// otermKey: canonical text of a term if all its leaves have concrete identity.
func otermKey(t *OTerm) (string, bool) {
	var b strings.Builder
	b.WriteString(t.Ctor)
	b.WriteString("(")
	for _, a := range t.Args {
		switch x := a.(type) {
		case *OTerm:
			k, ok := otermKey(x)
			if !ok {
				return "", false
			}
			b.WriteString(k)
		case *Atom:
			fmt.Fprintf(&b, "<%s#%d>", x.Fam, x.ID)
		case string:
			fmt.Fprintf(&b, "%q", x)
		case int:
			fmt.Fprintf(&b, "%d", x)
		case bool:
			fmt.Fprintf(&b, "%v", x)
		case Value:
			k, ok := keyOf(x)
			if !ok {
				if x.K == KSlice {
					k, ok = sliceKey(x)
				}
				if !ok {
					return "", false
				}
			}
			b.WriteString(k)
		case nil:
			b.WriteString("nil")
		default:
			return "", false
		}
		b.WriteString(",")
	}
	b.WriteString(")")
	return b.String(), true
}

func sliceKey(v Value) (string, bool) {
	if v.R == nil {
		return "[]", true
	}
	if t, ok := opaqueOfBytes(v); ok {
		return otermKey(t)
	}
	var b strings.Builder
	b.WriteString("[")
	for _, e := range v.R.(*SliceV).S {
		if e.K == KOpaque {
			ob, ok := e.R.(*OpaqueBytes)
			if !ok {
				return "", false
			}
			var k string
			if ob.T != nil {
				k, ok = otermKey(ob.T)
			} else {
				k, ok = fmt.Sprintf("<%s#%d/%s>", ob.A.Fam, ob.A.ID, ob.Tag), true
			}
			if !ok {
				return "", false
			}
			b.WriteString(k + ",")
			continue
		}
		k, ok := keyOf(e)
		if !ok {
			return "", false
		}
		b.WriteString(k + ",")
	}
	b.WriteString("]")
	return b.String(), true
}


// nominalLen: the real length in bytes of a byte string that the engine keeps as ONE opaque chunk, when that
// length is fixed by its constructor (key encodings, digests, identifiers). len() reports it, so that length
// checks in the code under test take the branch they take for real; looking inside such a chunk (indexing,
// slicing at other than its ends) is not modelled and makes the path inconclusive instead of going wrong.
func nominalLen(v Value) (int, bool) {
	if v.K != KSlice || v.R == nil {
		return 0, false
	}
	cells := v.R.(*SliceV).S
	if len(cells) != 1 || cells[0].K != KOpaque {
		return 0, false
	}
	ob, ok := cells[0].R.(*OpaqueBytes)
	if !ok {
		return 0, false
	}
	if ob.A != nil {
		switch ob.Tag {
		case "bin":
			return 36, true
		case "mh":
			return 34, true
		}
		return 0, false
	}
	if ob.T == nil {
		return 0, false
	}
	switch ob.T.Ctor {
	case "pubuncomp", "pubuncompT":
		return 65, true
	case "pubraw":
		return 33, true
	case "pubx", "puby", "pubyT":
		return 32, true
	case "pubyS":
		return 31, true
	case "privraw":
		return 32, true
	case "cidbytes":
		return 36, true
	}
	return 0, false
}

// ---- the little structure public key encodings have -----------------------------------------------
//
// pubuncomp(k) = 04 ‖ X(k) ‖ Y(k),  pubraw(k) = (02 | parity(Y(k))) ‖ X(k).  X(k) and Y(k) are opaque 32-byte
// chunks (pubx, puby); the last byte of Y(k) is the 8-bit unknown ylast_k, so that its parity is a symbolic bit.
// pubuncompT(k, n) is pubuncomp(k) with Y replaced by a different value of the same parity (not a curve point).
// Only the accesses code that converts between the encodings performs are modelled: the first byte, the last
// byte, and the coordinate halves; anything else stays "inside an opaque byte string" (inconclusive).

func (in *Interp) yLast(k int) *smt.Term { return in.Ctx.Var(fmt.Sprintf("ylast_k%d", k), 8) }

func (in *Interp) parityPrefix(k int) *smt.Term {
	c := in.Ctx
	return c.Bin(smt.OpOr, c.BV(2, 8), c.Bin(smt.OpAnd, in.yLast(k), c.BV(1, 8)))
}

func chunkTerm(v Value) *OTerm {
	t, ok := opaqueOfBytes(v)
	if !ok || len(t.Args) == 0 {
		return nil
	}
	if _, ok := t.Args[0].(int); !ok {
		return nil
	}
	return t
}

// chunkByte: byte i of a key encoding kept as one chunk, where the model knows it.
func (in *Interp) chunkByte(v Value, i int64) (Value, bool) {
	t := chunkTerm(v)
	if t == nil {
		return Value{}, false
	}
	k := t.Args[0].(int)
	switch t.Ctor {
	case "pubuncomp", "pubuncompT":
		switch i {
		case 0:
			return mkInt(4, 8), true
		case 64:
			return mkSymInt(in.yLast(k)), true
		}
	case "pubraw":
		if i == 0 {
			return mkSymInt(in.parityPrefix(k)), true
		}
	case "puby", "pubyT":
		if i == 31 {
			return mkSymInt(in.yLast(k)), true
		}
	}
	return Value{}, false
}

// chunkSlice: the coordinate halves of a key encoding.
func chunkSlice(v Value, lo, hi int64) (Value, bool) {
	t := chunkTerm(v)
	if t == nil {
		return Value{}, false
	}
	k := t.Args[0].(int)
	switch t.Ctor {
	case "pubuncomp", "pubuncompT":
		switch {
		case lo == 1 && hi == 33:
			return opqBytes(ot("pubx", k)), true
		case lo == 33 && hi == 65 && t.Ctor == "pubuncomp":
			return opqBytes(ot("puby", k)), true
		case lo == 33 && hi == 65:
			return opqBytes(ot("pubyT", k, t.Args[1])), true
		}
	case "pubraw":
		if lo == 1 && hi == 33 {
			return opqBytes(ot("pubx", k)), true
		}
	}
	return Value{}, false
}

// keyFromParts recognises a key encoding assembled from its parts: [prefix byte][X(k)] and [04][X(k)][Y(k)].
// A compressed encoding whose prefix has the other parity denotes the negated point: a different, valid key.
func (in *Interp) keyFromParts(v Value) (*keySt, bool) {
	if v.K != KSlice || v.R == nil {
		return nil, false
	}
	s := v.R.(*SliceV).S
	part := func(x Value, ctor string) (int, bool) {
		if x.K != KOpaque {
			return 0, false
		}
		ob, ok := x.R.(*OpaqueBytes)
		if !ok || ob.T == nil || ob.T.Ctor != ctor {
			return 0, false
		}
		return ob.T.Args[0].(int), true
	}
	c := in.Ctx
	switch len(s) {
	case 2:
		k, ok := part(s[1], "pubx")
		if !ok || s[0].K == KOpaque {
			return nil, false
		}
		b := s[0].Term(c)
		if in.Branch(c.Cmp(smt.OpEq, b, in.parityPrefix(k)), "key prefix") {
			return &keySt{id: k}, true
		}
		other := c.Bin(smt.OpXor, in.parityPrefix(k), c.BV(1, 8))
		if in.Branch(c.Cmp(smt.OpEq, b, other), "key prefix (negated point)") {
			if in.negKeys == nil {
				in.negKeys = map[int]int{}
			}
			if _, ok := in.negKeys[k]; !ok {
				in.keyCount++
				in.negKeys[k] = in.keyCount
			}
			return &keySt{id: in.negKeys[k]}, true
		}
		return nil, false
	case 3:
		k, ok := part(s[1], "pubx")
		k2, ok2 := part(s[2], "puby")
		if !ok || !ok2 || k != k2 || s[0].K == KOpaque {
			return nil, false
		}
		if in.Branch(c.Cmp(smt.OpEq, s[0].Term(c), c.BV(4, 8)), "key prefix") {
			return &keySt{id: k}, true
		}
	}
	return nil, false
}

// bigCoord is a coordinate of a parsed public key as a *big.Int: only Bytes() is modelled. big.Int.Bytes() is
// the minimal big-endian form: a coordinate whose leading byte is zero (one key in 256) comes out one byte short;
// yShort(k) is that event for Y as a symbolic boolean per key (shorter still is not modelled: one in 65536).
type bigCoord struct {
	k     int
	which string
}

func (in *Interp) yShort(k int) *smt.Term { return in.Ctx.Var(fmt.Sprintf("yshort_k%d", k), 0) }

func init() {
	intrinsics["(*math/big.Int).Bytes"] = func(in *Interp, fr *Frame, a []Value) (Value, bool) {
		if a[0].R == nil {
			return declined()
		}
		cell, ok := a[0].R.(*Value)
		if !ok || cell.K != KOpaque {
			return declined()
		}
		bc, ok := cell.R.(*bigCoord)
		if !ok {
			return declined()
		}
		if bc.which == "X" {
			return opqBytes(ot("pubx", bc.k)), true // (a leading zero byte of X is not modelled)
		}
		if in.Branch(in.yShort(bc.k), "leading byte of Y is zero") {
			return opqBytes(ot("pubyS", bc.k)), true
		}
		return opqBytes(ot("puby", bc.k)), true
	}
}

// normKeyCells collapses 04 ‖ X(k) ‖ Y(k) assembled from its parts into the one chunk pubuncomp(k), so that a key
// rebuilt by hand equals the key serialised by the library.
func normKeyCells(s []Value) []Value {
	if len(s) != 3 || s[0].K == KOpaque || s[0].R != nil || s[0].N != 4 || s[1].K != KOpaque || s[2].K != KOpaque {
		return s
	}
	x, ok1 := s[1].R.(*OpaqueBytes)
	y, ok2 := s[2].R.(*OpaqueBytes)
	if !ok1 || !ok2 || x.T == nil || y.T == nil || x.T.Ctor != "pubx" || y.T.Ctor != "puby" || x.T.Args[0].(int) != y.T.Args[0].(int) {
		return s
	}
	return []Value{{K: KOpaque, R: &OpaqueBytes{T: ot("pubuncomp", x.T.Args[0].(int))}}}
}
