package interp

import (
	"unicode/utf8"

	"gosx/smt"
)

// strings.Builder: the accumulated text is a string value (rope) kept per Builder instance; the real
// implementation goes through unsafe, which the interpreter does not execute.

func (in *Interp) sbGet(p Value) Value {
	if v, ok := in.side[p.R.(*Value)].(Value); ok {
		return v
	}
	return mkStr("")
}

func (in *Interp) sbSet(p Value, s Value) { in.side[p.R.(*Value)] = s }

func (in *Interp) strLenV(x Value) Value {
	if s, ok := x.ConcStr(); ok {
		return mkInt(uint64(len(s)), 64)
	}
	n := 0
	for _, sg := range x.R.(*Rope).Segs {
		switch {
		case sg.Atom != nil, sg.Opq != nil:
			n += 46
		case sg.Sym != nil:
			n += len(sg.Sym)
		default:
			n += len(sg.S)
		}
	}
	return mkInt(uint64(n), 64)
}

func init() {
	ix := map[string]ixFn{
		"(*strings.Builder).WriteString": func(in *Interp, fr *Frame, a []Value) (Value, bool) {
			in.sbSet(a[0], concatStr(in.sbGet(a[0]), a[1]))
			return tuple(in.strLenV(a[1]), nilErr), true
		},
		"(*strings.Builder).Write": func(in *Interp, fr *Frame, a []Value) (Value, bool) {
			s := in.bytesToString(a[1])
			in.sbSet(a[0], concatStr(in.sbGet(a[0]), s))
			return tuple(in.strLenV(s), nilErr), true
		},
		"(*strings.Builder).WriteByte": func(in *Interp, fr *Frame, a []Value) (Value, bool) {
			var s Value
			if a[1].R == nil {
				s = mkStr(string([]byte{byte(a[1].N)}))
			} else {
				s = Value{K: KStr, R: &Rope{Segs: []Seg{{Sym: []*smt.Term{a[1].R.(*smt.Term)}}}}}
			}
			in.sbSet(a[0], concatStr(in.sbGet(a[0]), s))
			return nilErr, true
		},
		"(*strings.Builder).WriteRune": func(in *Interp, fr *Frame, a []Value) (Value, bool) {
			if a[1].R != nil {
				unsupported("strings.Builder.WriteRune of a symbolic rune")
			}
			var buf [utf8.UTFMax]byte
			n := utf8.EncodeRune(buf[:], rune(int32(a[1].N)))
			in.sbSet(a[0], concatStr(in.sbGet(a[0]), mkStr(string(buf[:n]))))
			return tuple(mkInt(uint64(n), 64), nilErr), true
		},
		"(*strings.Builder).String": func(in *Interp, fr *Frame, a []Value) (Value, bool) {
			return in.sbGet(a[0]), true
		},
		"(*strings.Builder).Len": func(in *Interp, fr *Frame, a []Value) (Value, bool) {
			return in.strLenV(in.sbGet(a[0])), true
		},
		"(*strings.Builder).Cap": func(in *Interp, fr *Frame, a []Value) (Value, bool) {
			return in.strLenV(in.sbGet(a[0])), true
		},
		"(*strings.Builder).Grow": func(in *Interp, fr *Frame, a []Value) (Value, bool) {
			return Value{}, true
		},
		"(*strings.Builder).Reset": func(in *Interp, fr *Frame, a []Value) (Value, bool) {
			in.sbSet(a[0], mkStr(""))
			return Value{}, true
		},
	}
	for k, f := range ix {
		intrinsics[k] = f
	}
}
