package interp

import (
	"fmt"
	"go/types"
	"strconv"
	"strings"
)

// fmt model: a format is rendered piecewise. Concrete arguments are formatted by the real fmt package;
// string / []byte arguments under %s and %v keep their symbolic structure (ropes). Whatever cannot be
// rendered faithfully (symbolic integers, composite values, unusual verbs on symbolic data) makes the whole
// result one opaque injective term sprintf(format, args...), as before.

type fmtPiece struct {
	v  Value
	ok bool
}

func (in *Interp) fmtArgConcrete(arg Value) (interface{}, bool) {
	if arg.K != KIface {
		return nil, false
	}
	if arg.R == nil {
		return nil, true
	}
	iv := arg.R.(*IfaceV)
	v := iv.V
	switch v.K {
	case KInt:
		if v.R != nil {
			return nil, false
		}
		if b, ok := iv.T.Underlying().(*types.Basic); ok {
			switch b.Kind() {
			case types.Int, types.Int64:
				return int64(v.N), true
			case types.Int32:
				return int32(v.N), true
			case types.Int16:
				return int16(v.N), true
			case types.Int8:
				return int8(v.N), true
			case types.Uint8:
				return uint8(v.N), true
			case types.Uint16:
				return uint16(v.N), true
			case types.Uint32:
				return uint32(v.N), true
			case types.Uint, types.Uint64, types.Uintptr:
				return v.N, true
			}
		}
		return nil, false
	case KBool:
		if v.R != nil {
			return nil, false
		}
		return v.N == 1, true
	case KStr:
		if s, ok := v.ConcStr(); ok {
			if _, isBasic := iv.T.(*types.Basic); isBasic {
				return s, true
			}
		}
		return nil, false
	case KSlice:
		if sl, ok := iv.T.Underlying().(*types.Slice); ok {
			if w, _, ok := intInfo(sl.Elem()); ok && w == 8 {
				if v.R == nil {
					return []byte(nil), true
				}
				out := make([]byte, 0, len(v.R.(*SliceV).S))
				for _, c := range v.R.(*SliceV).S {
					if c.K != KInt || c.R != nil {
						return nil, false
					}
					out = append(out, byte(c.N))
				}
				return out, true
			}
		}
	}
	return nil, false
}

// fmtSprintf renders format with args (a slice value of interface values); ok=false if it cannot be rendered.
func (in *Interp) fmtSprintf(format string, args []Value) (Value, bool) {
	out := mkStr("")
	ai := 0
	for i := 0; i < len(format); {
		j := strings.IndexByte(format[i:], '%')
		if j < 0 {
			out = concatStr(out, mkStr(format[i:]))
			break
		}
		out = concatStr(out, mkStr(format[i:i+j]))
		i += j
		// parse one directive: %[flags][width][.prec]verb
		k := i + 1
		for k < len(format) && strings.IndexByte("+-# 0123456789.", format[k]) >= 0 {
			k++
		}
		if k >= len(format) {
			return Value{}, false
		}
		verb := format[k]
		dir := format[i : k+1]
		i = k + 1
		if verb == '%' {
			out = concatStr(out, mkStr("%"))
			continue
		}
		if ai >= len(args) {
			return Value{}, false
		}
		arg := args[ai]
		ai++
		if c, ok := in.fmtArgConcrete(arg); ok {
			out = concatStr(out, mkStr(fmt.Sprintf(dir, c)))
			continue
		}
		// symbolic text under a plain %s / %v
		if (dir == "%s" || dir == "%v") && arg.K == KIface && arg.R != nil {
			iv := arg.R.(*IfaceV)
			if _, isBasic := iv.T.(*types.Basic); isBasic && iv.V.K == KStr {
				out = concatStr(out, iv.V)
				continue
			}
			if sl, ok := iv.T.Underlying().(*types.Slice); ok && dir == "%s" && iv.V.K == KSlice {
				if w, _, ok := intInfo(sl.Elem()); ok && w == 8 {
					out = concatStr(out, in.bytesToString(iv.V))
					continue
				}
			}
		}
		return Value{}, false
	}
	if ai != len(args) {
		return Value{}, false
	}
	return out, true
}

func (in *Interp) fmtSprint(args []Value, spaces bool) (Value, bool) {
	out := mkStr("")
	prevStr := true
	for i, arg := range args {
		isStr := false
		var piece Value
		if c, ok := in.fmtArgConcrete(arg); ok {
			_, isStr = c.(string)
			piece = mkStr(fmt.Sprint(c))
		} else if arg.K == KIface && arg.R != nil && arg.R.(*IfaceV).V.K == KStr {
			if _, isBasic := arg.R.(*IfaceV).T.(*types.Basic); !isBasic {
				return Value{}, false
			}
			isStr = true
			piece = arg.R.(*IfaceV).V
		} else {
			return Value{}, false
		}
		if i > 0 && (spaces || (!isStr && !prevStr)) {
			out = concatStr(out, mkStr(" "))
		}
		out = concatStr(out, piece)
		prevStr = isStr
	}
	return out, true
}

func sliceArgs(v Value) []Value {
	if v.R == nil {
		return nil
	}
	return v.R.(*SliceV).S
}

var _ = strconv.Itoa

func (in *Interp) fmtOpaque(format string, args []Value) Value {
	oa := []interface{}{format}
	for _, arg := range args {
		if arg.R == nil {
			oa = append(oa, nil)
			continue
		}
		iv := arg.R.(*IfaceV)
		switch iv.V.K {
		case KInt, KBool, KStr:
			oa = append(oa, iv.V)
		case KSlice:
			oa = append(oa, in.msgArg(iv.V))
		default:
			oa = append(oa, "<"+iv.T.String()+">")
		}
	}
	return opqStr(&OTerm{Ctor: "sprintf", Args: oa})
}

// writeTo calls w.Write([]byte(s)) on an io.Writer value.
func (in *Interp) writeTo(w Value, s Value) Value {
	if w.R == nil {
		in.goPanic(in.cur, "nil pointer dereference (nil io.Writer)")
		return tuple(mkInt(0, 64), nilErr)
	}
	iv := w.R.(*IfaceV)
	if iv.T.String() == "*os.File" {
		return tuple(in.strLenV(s), nilErr) // diagnostics written to a file descriptor are discarded
	}
	sel := in.Prog.MethodSets.MethodSet(iv.T).Lookup(nil, "Write")
	if sel == nil {
		unsupported("no Write method on %s", iv.T)
	}
	fn := in.Prog.MethodValue(sel)
	return in.CallSync(Value{K: KFunc, R: &Closure{Fn: fn}}, []Value{iv.V, in.stringToBytes(s)})
}

func init() {
	render := func(in *Interp, format string, args []Value) Value {
		if v, ok := in.fmtSprintf(format, args); ok {
			return v
		}
		return in.fmtOpaque(format, args)
	}
	sprint := func(in *Interp, args []Value, ln bool) Value {
		v, ok := in.fmtSprint(args, ln)
		if !ok {
			v = in.fmtOpaque("%v...", args)
		}
		if ln {
			v = concatStr(v, mkStr("\n"))
		}
		return v
	}
	ix := map[string]ixFn{
		"fmt.Sprint":   func(in *Interp, fr *Frame, a []Value) (Value, bool) { return sprint(in, sliceArgs(a[0]), false), true },
		"fmt.Sprintln": func(in *Interp, fr *Frame, a []Value) (Value, bool) { return sprint(in, sliceArgs(a[0]), true), true },
		"fmt.Fprintf": func(in *Interp, fr *Frame, a []Value) (Value, bool) {
			return in.writeTo(a[0], render(in, concStrArg(a[1]), sliceArgs(a[2]))), true
		},
		"fmt.Fprint": func(in *Interp, fr *Frame, a []Value) (Value, bool) {
			return in.writeTo(a[0], sprint(in, sliceArgs(a[1]), false)), true
		},
		"fmt.Fprintln": func(in *Interp, fr *Frame, a []Value) (Value, bool) {
			return in.writeTo(a[0], sprint(in, sliceArgs(a[1]), true)), true
		},
		"fmt.Appendf": func(in *Interp, fr *Frame, a []Value) (Value, bool) {
			return in.appendBytes(a[0], render(in, concStrArg(a[1]), sliceArgs(a[2]))), true
		},
		"fmt.Append": func(in *Interp, fr *Frame, a []Value) (Value, bool) {
			return in.appendBytes(a[0], sprint(in, sliceArgs(a[1]), false)), true
		},
		"fmt.Appendln": func(in *Interp, fr *Frame, a []Value) (Value, bool) {
			return in.appendBytes(a[0], sprint(in, sliceArgs(a[1]), true)), true
		},
		"fmt.Println": func(in *Interp, fr *Frame, a []Value) (Value, bool) { return tuple(mkInt(0, 64), nilErr), true },
		"fmt.Print":   func(in *Interp, fr *Frame, a []Value) (Value, bool) { return tuple(mkInt(0, 64), nilErr), true },
	}
	for k, f := range ix {
		intrinsics[k] = f
	}
}


// appendBytes: append(dst, []byte(s)...) for the fmt.Append family.
func (in *Interp) appendBytes(dst Value, s Value) Value {
	var cells []Value
	if dst.R != nil {
		cells = append(cells, dst.R.(*SliceV).S...)
	}
	b := in.stringToBytes(s)
	if b.R != nil {
		cells = append(cells, b.R.(*SliceV).S...)
	}
	return Value{K: KSlice, R: &SliceV{S: cells}}
}
