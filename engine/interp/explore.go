package interp

import (
	"fmt"
	"os"
	"runtime/debug"
	"strings"
	"sync"
	"time"

	"gosx/smt"

	"golang.org/x/tools/go/ssa"
)

// Explorer runs the DFS over decision prefixes with a pool of workers.
type Explorer struct {
	prog     *ssa.Program
	fn       *ssa.Function
	workers  int
	Trace    bool
	MaxPaths int

	mu           sync.Mutex
	cond         *sync.Cond
	queue        [][]Dec
	active       int
	Paths        int
	Aborted      int
	Inconclusive []string
	Violations   []Violation
	Total        Stats
	SolverTime   time.Duration
	Funcs        map[string]int
	Cover        map[string]bool
}

func NewExplorer(prog *ssa.Program, fn *ssa.Function, workers int) *Explorer {
	e := &Explorer{prog: prog, fn: fn, workers: workers, Funcs: map[string]int{}, Cover: map[string]bool{}}
	e.cond = sync.NewCond(&e.mu)
	return e
}

func (e *Explorer) push(p []Dec) {
	e.mu.Lock()
	e.queue = append(e.queue, p)
	e.mu.Unlock()
	e.cond.Signal()
}

func (e *Explorer) pop() ([]Dec, bool) {
	e.mu.Lock()
	defer e.mu.Unlock()
	for len(e.queue) == 0 {
		if e.active == 0 {
			e.cond.Broadcast()
			return nil, false
		}
		e.cond.Wait()
	}
	if e.MaxPaths > 0 && e.Paths >= e.MaxPaths {
		e.queue = nil
		if e.active == 0 {
			e.cond.Broadcast()
			return nil, false
		}
	}
	if len(e.queue) == 0 {
		return nil, false
	}
	p := e.queue[len(e.queue)-1]
	e.queue = e.queue[:len(e.queue)-1]
	e.active++
	return p, true
}

func (e *Explorer) Run() {
	e.queue = [][]Dec{nil}
	var wg sync.WaitGroup
	for w := 0; w < e.workers; w++ {
		wg.Add(1)
		go func() {
			defer wg.Done()
			sol, err := smt.NewSolver(strings.Fields(os.Getenv("GOSX_SOLVER"))...)
			if err != nil {
				panic(err)
			}
			if f := os.Getenv("GOSX_SMTLOG"); f != "" {
				lf, _ := os.Create(f)
				sol.Log = lf
			}
			defer sol.Close()
			var infos map[*ssa.Function]*fnInfo
			for {
				p, ok := e.pop()
				if !ok {
					break
				}
				e.runOne(sol, p, &infos)
				e.mu.Lock()
				e.active--
				e.mu.Unlock()
				e.cond.Broadcast()
			}
			e.mu.Lock()
			e.SolverTime += sol.Time
			e.mu.Unlock()
		}()
	}
	wg.Wait()
}

func (e *Explorer) runOne(sol *smt.Solver, prefix []Dec, infos *map[*ssa.Function]*fnInfo) {
	sol.Reset()
	ctx := smt.NewCtx()
	in := NewInterp(e.prog, ctx, sol)
	if *infos != nil {
		in.infos = *infos
	}
	in.Trace = e.Trace
	in.resetRun()
	in.P = &PathState{prefix: prefix, spawn: e.push}
	status := "ok"
	var why string
	func() {
		defer func() {
			if r := recover(); r != nil {
				switch x := r.(type) {
				case abortPath:
					status, why = "abort", x.why
				case inconclusive:
					status, why = "inconclusive", x.why
				default:
					status, why = "inconclusive", fmt.Sprintf("engine panic: %v\n%s", r, debug.Stack())
				}
			}
		}()
		if os.Getenv("GOSX_EXPLORE") != "" {
			in.PreemptBound = -1
			if pb := os.Getenv("GOSX_PB"); pb != "" {
				fmt.Sscan(pb, &in.PreemptBound)
			}
			in.RunExplore(e.fn)
		} else {
			in.Run(e.fn)
		}
	}()
	*infos = in.infos
	e.mu.Lock()
	defer e.mu.Unlock()
	e.Paths++
	switch status {
	case "abort":
		e.Aborted++
	case "inconclusive":
		e.Inconclusive = append(e.Inconclusive, why)
	}
	e.Violations = append(e.Violations, in.Violations...)
	s := in.Stats
	e.Total.Instrs += s.Instrs
	e.Total.Decisions += s.Decisions
	e.Total.BranchQueries += s.BranchQueries
	e.Total.AssertQueries += s.AssertQueries
	e.Total.ModelHits += s.ModelHits
	e.Total.Obligations += s.Obligations
	e.Total.Discharged += s.Discharged
	e.Total.Unknown += s.Unknown
	e.Total.SchedPoints += s.SchedPoints
	for f, n := range in.FuncsEntered {
		e.Funcs[f.String()] += n
	}
	for c := range in.Cover {
		e.Cover[c] = true
	}
}
