package interp

import (
	"fmt"
	"hash/fnv"
	"os"
	"runtime/debug"
	"sort"
	"strings"
	"sync"
	"time"

	"gosx/smt"

	"golang.org/x/tools/go/ssa"
)

// RunConfig describes one harness run (one entry of the registry).
type RunConfig struct {
	Fn         *ssa.Function
	Name       string
	Params     map[string]int
	Explore    bool // explore all schedules (else deterministic seq scheduler)
	PB         int  // preemption bound (-1 = unbounded), explore mode only
	Race       bool // happens-before race detector
	Workers    int
	MaxPaths   int
	Budget     time.Duration
	KnownSigs  map[string]bool // signatures of recorded (open) findings
	SolverArgv []string
	MaxSamples int
	Seed       int64
	Trace      bool
	Unwind     int
	MaxCross   int // number of solver-decided assertion queries kept for cross-checking with other solvers
}

// FuncInfo describes one SSA function that was entered.
type FuncInfo struct {
	Calls  int    `json:"calls"`
	Instrs int    `json:"ssa_instrs"`
	File   string `json:"file"`
}

// Explorer runs the DFS over decision prefixes with a pool of workers.
type Explorer struct {
	prog *ssa.Program
	cfg  RunConfig

	mu           sync.Mutex
	cond         *sync.Cond
	queue        [][]Dec
	active       int
	stopped      bool
	Paths        int
	Aborted      int
	OKPaths      int
	Nontrivial   int
	Inconclusive []string
	Violations   []Violation
	Total        Stats
	SolverTime   time.Duration
	Funcs        map[string]*FuncInfo
	Cover        map[string]bool
	Stubs        map[string]int
	Samples      []*ReplayModel
	sampleKeys   []uint64
	Exhaustive   bool
	Wall         time.Duration
	SolverStats  struct{ Queries, Sat, Unsat, Unknown int }
	Cross        []CrossQuery
	crossSeen    int
}

// CrossQuery is one assertion query as a self-contained SMT-LIB2 script with the primary solver's answer.
type CrossQuery struct{ Script, Expect string }

func NewExplorer(prog *ssa.Program, cfg RunConfig) *Explorer {
	if cfg.Workers <= 0 {
		cfg.Workers = 16
	}
	if cfg.MaxSamples == 0 {
		cfg.MaxSamples = 6
	}
	e := &Explorer{prog: prog, cfg: cfg, Funcs: map[string]*FuncInfo{}, Cover: map[string]bool{}, Stubs: map[string]int{}}
	e.cond = sync.NewCond(&e.mu)
	return e
}

func (e *Explorer) push(p []Dec) {
	e.mu.Lock()
	if !e.stopped {
		e.queue = append(e.queue, p)
	}
	e.mu.Unlock()
	e.cond.Signal()
}

func (e *Explorer) pop() ([]Dec, bool) {
	e.mu.Lock()
	defer e.mu.Unlock()
	for len(e.queue) == 0 {
		if e.active == 0 || e.stopped {
			e.cond.Broadcast()
			return nil, false
		}
		e.cond.Wait()
	}
	if e.stopped {
		return nil, false
	}
	p := e.queue[len(e.queue)-1]
	e.queue = e.queue[:len(e.queue)-1]
	e.active++
	return p, true
}

func (e *Explorer) stop(why string) {
	e.mu.Lock()
	if !e.stopped {
		e.stopped = true
		e.Inconclusive = append(e.Inconclusive, fmt.Sprintf("search stopped (%s) with %d unexplored prefixes", why, len(e.queue)))
		e.queue = nil
	}
	e.mu.Unlock()
	e.cond.Broadcast()
}

func (e *Explorer) Run() {
	t0 := time.Now()
	e.queue = [][]Dec{nil}
	var wg sync.WaitGroup
	var deadline, firstViol time.Time
	violSeen := 0
	const violGrace = 90 * time.Second
	if e.cfg.Budget > 0 {
		deadline = t0.Add(e.cfg.Budget)
	}
	for w := 0; w < e.cfg.Workers; w++ {
		wg.Add(1)
		go func() {
			defer wg.Done()
			argv := e.cfg.SolverArgv
			if len(argv) == 0 {
				argv = strings.Fields(os.Getenv("GOSX_SOLVER"))
			}
			sol, err := smt.NewSolver(argv...)
			if err != nil {
				panic(err)
			}
			if f := os.Getenv("GOSX_SMTLOG"); f != "" {
				lf, _ := os.Create(f)
				sol.Log = lf
			}
			defer sol.Close()
			var infos map[*ssa.Function]*fnInfo
			var ixc map[*ssa.Function]*Intrinsic
			var mc map[methKey]Value
			for {
				p, ok := e.pop()
				if !ok {
					break
				}
				e.runOne(sol, p, &infos, &ixc, &mc)
				e.mu.Lock()
				e.active--
				over := (e.cfg.MaxPaths > 0 && e.Paths >= e.cfg.MaxPaths) || (!deadline.IsZero() && time.Now().After(deadline))
				// a run that has found violations is failing whatever the rest of the search yields: it is given a
				// grace period to collect further distinct signatures and is then cut short (some changes make every
				// remaining query expensive)
				if firstViol.IsZero() {
					for _, v := range e.Violations[violSeen:] {
						if !e.cfg.KnownSigs[v.Sig] { // recorded findings are reported and do not fail the run
							firstViol = time.Now()
							break
						}
					}
					violSeen = len(e.Violations)
				}
				failing := !firstViol.IsZero() && time.Since(firstViol) > violGrace
				e.mu.Unlock()
				if over {
					e.stop("budget")
				} else if failing {
					e.stop("violations found, rest of the search skipped")
				}
				e.cond.Broadcast()
			}
			e.mu.Lock()
			e.SolverTime += sol.Time
			e.SolverStats.Queries += sol.Queries
			e.SolverStats.Sat += sol.NSat
			e.SolverStats.Unsat += sol.NUnsat
			e.SolverStats.Unknown += sol.NUnknown
			e.mu.Unlock()
		}()
	}
	wg.Wait()
	e.Wall = time.Since(t0)
	e.Exhaustive = !e.stopped && len(e.Inconclusive) == 0
}

func prefixHash(p []Dec, seed int64) uint64 {
	h := fnv.New64a()
	fmt.Fprintf(h, "%d:", seed)
	for _, d := range p {
		fmt.Fprintf(h, "%d,", d.Val)
	}
	return h.Sum64()
}

func (e *Explorer) runOne(sol *smt.Solver, prefix []Dec, infos *map[*ssa.Function]*fnInfo, ixc *map[*ssa.Function]*Intrinsic, mc *map[methKey]Value) {
	sol.Reset()
	ctx := smt.NewCtx()
	in := NewInterp(e.prog, ctx, sol)
	if *infos != nil {
		in.infos = *infos
		in.ixCache = *ixc
		in.methCache = *mc
	}
	in.Trace = e.cfg.Trace
	in.HarnessName = e.cfg.Name
	in.Params = e.cfg.Params
	in.RaceDetect = e.cfg.Race
	in.Unwind = e.cfg.Unwind
	if e.cfg.MaxCross > 0 {
		in.CrossSink = func(script, expect string) {
			e.mu.Lock()
			defer e.mu.Unlock()
			e.crossSeen++
			if len(e.Cross) < e.cfg.MaxCross {
				e.Cross = append(e.Cross, CrossQuery{script, expect})
			} else if e.crossSeen%7 == 0 { // keep a spread over the run, not only the first queries
				e.Cross[e.crossSeen%e.cfg.MaxCross] = CrossQuery{script, expect}
			}
		}
	}
	in.resetRun()
	in.P = &PathState{prefix: prefix, spawn: e.push}
	status := "ok"
	var why string
	func() {
		defer func() {
			if r := recover(); r != nil {
				switch x := r.(type) {
				case abortPath:
					status, why = "abort", x.why
				case inconclusive:
					status, why = "inconclusive", x.why+" @ "+in.whereAmI()
				default:
					status, why = "inconclusive", fmt.Sprintf("engine panic: %v\n%s", r, debug.Stack())
				}
			}
		}()
		if e.cfg.Explore {
			in.PreemptBound = e.cfg.PB
			in.Explore = true
			in.RunExplore(e.cfg.Fn)
		} else {
			in.Run(e.cfg.Fn)
		}
	}()
	*infos = in.infos
	*ixc = in.ixCache
	*mc = in.methCache
	// sample passing paths for native cross-validation
	var sample *ReplayModel
	var skey uint64
	if status == "ok" && len(in.Violations) == 0 && e.cfg.MaxSamples > 0 {
		skey = prefixHash(in.P.taken, e.cfg.Seed)
		e.mu.Lock()
		want := len(e.sampleKeys) < e.cfg.MaxSamples || skey < e.sampleKeys[len(e.sampleKeys)-1]
		e.mu.Unlock()
		if want {
			if r, m := sol.Check(nil, true, in.modelVars()); r == smt.Sat {
				sample = in.BuildReplay(m)
			}
		}
	}
	e.mu.Lock()
	defer e.mu.Unlock()
	e.Paths++
	switch status {
	case "abort":
		e.Aborted++
	case "inconclusive":
		if len(why) > 600 {
			why = why[:600]
		}
		e.Inconclusive = append(e.Inconclusive, why)
	default:
		e.OKPaths++
	}
	s := in.Stats
	if s.BranchQueries+s.AssertQueries+s.ModelHits > 0 {
		e.Nontrivial++
	}
	if sample != nil {
		i := sort.Search(len(e.sampleKeys), func(i int) bool { return e.sampleKeys[i] >= skey })
		e.sampleKeys = append(e.sampleKeys, 0)
		copy(e.sampleKeys[i+1:], e.sampleKeys[i:])
		e.sampleKeys[i] = skey
		e.Samples = append(e.Samples, nil)
		copy(e.Samples[i+1:], e.Samples[i:])
		e.Samples[i] = sample
		if len(e.Samples) > e.cfg.MaxSamples {
			e.Samples = e.Samples[:e.cfg.MaxSamples]
			e.sampleKeys = e.sampleKeys[:e.cfg.MaxSamples]
		}
	}
	e.Violations = append(e.Violations, in.Violations...)
	e.Total.Instrs += s.Instrs
	e.Total.Decisions += s.Decisions
	e.Total.BranchQueries += s.BranchQueries
	e.Total.AssertQueries += s.AssertQueries
	e.Total.ModelHits += s.ModelHits
	e.Total.Obligations += s.Obligations
	e.Total.Discharged += s.Discharged
	e.Total.Unknown += s.Unknown
	e.Total.SchedPoints += s.SchedPoints
	for f, n := range in.FuncsEntered {
		k := f.String()
		fi := e.Funcs[k]
		if fi == nil {
			ni := 0
			for _, b := range f.Blocks {
				ni += len(b.Instrs)
			}
			fi = &FuncInfo{Instrs: ni, File: relRepo(e.prog.Fset.Position(f.Pos()).Filename)}
			e.Funcs[k] = fi
		}
		fi.Calls += n
	}
	for c := range in.Cover {
		e.Cover[c] = true
	}
	for k, n := range in.StubsHit {
		e.Stubs[k] += n
	}
}
