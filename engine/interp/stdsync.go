package interp

import (
	"go/token"
	"go/types"
	"strings"

	"golang.org/x/tools/go/ssa"
)

// ---- sync/atomic primitives (declared without body), sync.Pool, Try-locks, small runtime helpers ----
//
// Atomic operations are single indivisible steps of the interpreter; for the race detector they are
// acquire+release operations on their address (never reported as racing with each other).

func (in *Interp) atomicIntrinsic(fn *ssa.Function) *Intrinsic {
	if fn.Pkg == nil || fn.Pkg.Pkg.Path() != "sync/atomic" || fn.Blocks != nil || fn.Signature.Recv() != nil {
		return nil
	}
	name := fn.Name()
	var op string
	for _, p := range []string{"CompareAndSwap", "Load", "Store", "Add", "Swap", "And", "Or"} {
		if strings.HasPrefix(name, p) {
			op = p
			break
		}
	}
	if op == "" {
		return nil
	}
	elem := fn.Signature.Params().At(0).Type().Underlying().(*types.Pointer).Elem()
	return &Intrinsic{Name: "sync/atomic." + name, F: func(in *Interp, fr *Frame, a []Value) (Value, bool) {
		if a[0].R == nil {
			in.goPanic(in.cur, "nil pointer dereference (atomic)")
			return Value{}, true
		}
		p := a[0].R.(*Value)
		in.raceAcquire(p)
		defer in.raceRelease(p)
		old := copyVal(*p)
		switch op {
		case "Load":
			return old, true
		case "Store":
			*p = copyVal(a[1])
			return Value{}, true
		case "Swap":
			*p = copyVal(a[1])
			return old, true
		case "Add":
			*p = in.binop(in.cur, token.ADD, elem, old, a[1])
			return copyVal(*p), true
		case "And":
			*p = in.binop(in.cur, token.AND, elem, old, a[1])
			return old, true
		case "Or":
			*p = in.binop(in.cur, token.OR, elem, old, a[1])
			return old, true
		case "CompareAndSwap":
			eq := in.binop(in.cur, token.EQL, elem, old, a[1])
			var same bool
			if eq.R != nil {
				same = in.Branch(eq.Term(in.Ctx), "atomic.CompareAndSwap")
			} else {
				same = eq.N == 1
			}
			if same {
				*p = copyVal(a[2])
			}
			return mkBool(same), true
		}
		return Value{}, true
	}}
}

func structFieldIndex(t types.Type, name string) int {
	st := t.Underlying().(*types.Struct)
	for i := 0; i < st.NumFields(); i++ {
		if st.Field(i).Name() == name {
			return i
		}
	}
	return -1
}

func init() {
	var poolT types.Type
	ix := map[string]ixFn{
		"(*sync.Mutex).TryLock": func(in *Interp, fr *Frame, a []Value) (Value, bool) {
			m := in.mutexOf(a[0])
			if m.writer {
				return mkBool(false), true
			}
			m.writer = true
			in.raceAcquire(m)
			return mkBool(true), true
		},
		"(*sync.RWMutex).TryLock": func(in *Interp, fr *Frame, a []Value) (Value, bool) {
			m := in.mutexOf(a[0])
			if m.writer || m.readers > 0 || m.pending != nil {
				return mkBool(false), true
			}
			m.writer = true
			in.raceAcquire(m)
			in.raceAcquire(&m.readers)
			return mkBool(true), true
		},
		"(*sync.RWMutex).TryRLock": func(in *Interp, fr *Frame, a []Value) (Value, bool) {
			m := in.mutexOf(a[0])
			if m.writer || m.pending != nil {
				return mkBool(false), true
			}
			m.readers++
			in.raceAcquire(m)
			return mkBool(true), true
		},
		// sync.Pool: no pooling - every Get makes a new object (a legal behaviour of a pool)
		"(*sync.Pool).Get": func(in *Interp, fr *Frame, a []Value) (Value, bool) {
			if poolT == nil {
				poolT = fr.Fn.Prog.ImportedPackage("sync").Type("Pool").Type()
			}
			fs := (*(a[0].R.(*Value))).R.([]Value)
			nf := fs[structFieldIndex(poolT, "New")]
			if nf.R == nil {
				return Value{K: KIface}, true
			}
			return in.CallSync(nf, nil), true
		},
		"(*sync.Pool).Put": func(in *Interp, fr *Frame, a []Value) (Value, bool) { return Value{}, true },
		"internal/bytealg.MakeNoZero": func(in *Interp, fr *Frame, a []Value) (Value, bool) {
			n := in.concInt(a[0], "MakeNoZero length")
			s := make([]Value, n)
			for i := range s {
				s[i] = mkInt(0, 8)
			}
			return Value{K: KSlice, R: &SliceV{S: s}}, true
		},
	}
	for k, f := range ix {
		intrinsics[k] = f
	}
}

// internal/bytealg: assembly routines; executed natively on concrete data.
func (in *Interp) concBytes(v Value, what string) []byte {
	if v.K == KStr {
		s, ok := v.ConcStr()
		if !ok {
			unsupported("%s on a symbolic string", what)
		}
		return []byte(s)
	}
	if v.R == nil {
		return nil
	}
	cells := v.R.(*SliceV).S
	out := make([]byte, len(cells))
	for i, c := range cells {
		if c.K != KInt || c.R != nil {
			unsupported("%s on symbolic bytes", what)
		}
		out[i] = byte(c.N)
	}
	return out
}

func init() {
	idx := func(in *Interp, fr *Frame, a []Value) (Value, bool) {
		h, n := in.concBytes(a[0], "bytealg.Index"), in.concBytes(a[1], "bytealg.Index")
		return mkInt(uint64(int64(strings.Index(string(h), string(n)))), 64), true
	}
	idxByte := func(in *Interp, fr *Frame, a []Value) (Value, bool) {
		h := in.concBytes(a[0], "bytealg.IndexByte")
		if a[1].R != nil {
			unsupported("bytealg.IndexByte of a symbolic byte")
		}
		return mkInt(uint64(int64(strings.IndexByte(string(h), byte(a[1].N)))), 64), true
	}
	count := func(in *Interp, fr *Frame, a []Value) (Value, bool) {
		h := in.concBytes(a[0], "bytealg.Count")
		if a[1].R != nil {
			unsupported("bytealg.Count of a symbolic byte")
		}
		return mkInt(uint64(strings.Count(string(h), string([]byte{byte(a[1].N)}))), 64), true
	}
	ix := map[string]ixFn{
		"internal/bytealg.Index":           idx,
		"internal/bytealg.IndexString":     idx,
		"internal/bytealg.IndexByte":       idxByte,
		"internal/bytealg.IndexByteString": idxByte,
		"internal/bytealg.Count":           count,
		"internal/bytealg.CountString":     count,
		"internal/bytealg.Equal": func(in *Interp, fr *Frame, a []Value) (Value, bool) {
			return mkSymBool(in.bytesEqTerm(a[0], a[1])), true
		},
		"internal/bytealg.Compare": func(in *Interp, fr *Frame, a []Value) (Value, bool) {
			return in.bytesCompare(a[0], a[1]), true
		},
	}
	for k, f := range ix {
		intrinsics[k] = f
	}
}

func init() {
	// maps.clone is linked to the runtime: a shallow copy of the map behind the interface value
	intrinsics["maps.clone"] = func(in *Interp, fr *Frame, a []Value) (Value, bool) {
		if a[0].R == nil {
			return a[0], true
		}
		iv := a[0].R.(*IfaceV)
		if iv.V.R == nil {
			return a[0], true
		}
		src := iv.V.R.(*MapV)
		in.raceAccess(src, false)
		dst := newMap()
		for i, k := range src.Keys {
			if src.Live[i] {
				in.mapSet(in.cur, dst, k, copyVal(src.Vals[i]))
			}
		}
		return Value{K: KIface, R: &IfaceV{T: iv.T, V: Value{K: KMap, R: dst}}}, true
	}
}

// ---- diagnostics and clocks a developer may add: logging is discarded, wall-clock time is the zero instant ----
func init() {
	discard := func(in *Interp, fr *Frame, a []Value) (Value, bool) { return Value{}, true }
	ix := map[string]ixFn{
		"log.Printf": discard, "log.Println": discard, "log.Print": discard,
		"(*log.Logger).Printf": discard, "(*log.Logger).Println": discard, "(*log.Logger).Print": discard,
		"(*log.Logger).Output": func(in *Interp, fr *Frame, a []Value) (Value, bool) { return nilErr, true },
		"os.Getenv":            func(in *Interp, fr *Frame, a []Value) (Value, bool) { return mkStr(""), true },
		"os.LookupEnv": func(in *Interp, fr *Frame, a []Value) (Value, bool) {
			return tuple(mkStr(""), mkBool(false)), true
		},
		"runtime.Gosched": func(in *Interp, fr *Frame, a []Value) (Value, bool) {
			in.yieldNow = true
			return Value{}, true
		},
		"runtime.NumCPU":     func(in *Interp, fr *Frame, a []Value) (Value, bool) { return mkInt(4, 64), true },
		"runtime.GOMAXPROCS": func(in *Interp, fr *Frame, a []Value) (Value, bool) { return mkInt(4, 64), true },
		"time.Now": func(in *Interp, fr *Frame, a []Value) (Value, bool) {
			return zero(in.namedType("time", "Time")), true
		},
		"time.Since": func(in *Interp, fr *Frame, a []Value) (Value, bool) { return mkInt(0, 64), true },
		"time.Until": func(in *Interp, fr *Frame, a []Value) (Value, bool) { return mkInt(0, 64), true },
		"time.Sleep": func(in *Interp, fr *Frame, a []Value) (Value, bool) {
			in.yieldNow = true
			return Value{}, true
		},
	}
	for k, f := range ix {
		intrinsics[k] = f
	}
}

// hex / base64 into caller-supplied buffers: defined through the string forms. The destination slice value is
// re-pointed at the encoded cells (an opaque source yields opaque text cells, whose number differs from the
// real byte count; holders of the same slice header see the result, which is what `buf := make(..); Encode(buf,
// src); use(buf)` needs).
func init() {
	viaString := func(enc string, srcArg, dstArg int, prefixArgs int) ixFn {
		return func(in *Interp, fr *Frame, a []Value) (Value, bool) {
			f := intrinsics[enc]
			var args []Value
			args = append(args, a[:prefixArgs]...)
			args = append(args, a[srcArg])
			sv, _ := f(in, fr, args)
			cells := in.stringToBytes(sv)
			var n int
			if cells.R != nil {
				n = len(cells.R.(*SliceV).S)
			}
			if a[dstArg].R == nil {
				if n > 0 {
					in.goPanic(in.cur, "index out of range (encode into a nil buffer)")
				}
				return mkInt(0, 64), true
			}
			dst := a[dstArg].R.(*SliceV)
			if cells.R != nil {
				dst.S = append([]Value{}, cells.R.(*SliceV).S...)
			} else {
				dst.S = []Value{}
			}
			return mkInt(uint64(n), 64), true
		}
	}
	intrinsics["encoding/hex.Encode"] = viaString("encoding/hex.EncodeToString", 1, 0, 0)
	intrinsics["(*encoding/base64.Encoding).Encode"] = func(in *Interp, fr *Frame, a []Value) (Value, bool) {
		viaString("(*encoding/base64.Encoding).EncodeToString", 2, 1, 1)(in, fr, a)
		return Value{}, true
	}
	appendVia := func(enc string, prefixArgs int) ixFn {
		return func(in *Interp, fr *Frame, a []Value) (Value, bool) {
			f := intrinsics[enc]
			var args []Value
			args = append(args, a[:prefixArgs]...)
			args = append(args, a[prefixArgs+1])
			sv, _ := f(in, fr, args)
			return in.appendBytes(a[prefixArgs], sv), true
		}
	}
	intrinsics["encoding/hex.AppendEncode"] = appendVia("encoding/hex.EncodeToString", 0)
	intrinsics["(*encoding/base64.Encoding).AppendEncode"] = appendVia("(*encoding/base64.Encoding).EncodeToString", 1)
}
