package interp

import (
	"encoding/base64"
	"encoding/hex"
	"go/token"
	"go/types"

	"gosx/smt"
)

// ---- Dolev-Yao model of libp2p crypto (secp256k1) -------------------------------------------------
//
// GenerateSecp256k1Key -> fresh key k. Sign(k, m) is the term sig(k, m); Verify(pub(k'), m', s) holds iff
// s = sig(k', m') (existentially unforgeable, deterministic, collision-free). Raw/Unmarshal are mutually
// inverse constructors; any other byte string is not a key ("malformed") and never a valid signature.

var keyType = types.NewNamed(types.NewTypeName(token.NoPos, nil, "engineKey", nil), types.NewStruct(nil, nil), nil)

type keySt struct {
	id   int
	priv bool
}

func keyValue(k *keySt) Value {
	return Value{K: KIface, R: &IfaceV{T: keyType, V: Value{K: KOpaque, R: k}}}
}

func keyOfValue(v Value) *keySt {
	switch x := v.R.(type) {
	case *keySt:
		return x
	case *IfaceV:
		k, _ := x.V.R.(*keySt)
		return k
	}
	return nil
}

func (in *Interp) keyMethod(name string) Value {
	return Value{K: KFunc, R: &Intrinsic{Name: "crypto.Key." + name, F: func(in *Interp, fr *Frame, a []Value) (Value, bool) {
		k := keyOfValue(a[0])
		if k == nil {
			in.goPanic(in.cur, "nil pointer dereference (key)")
			return Value{}, true
		}
		c := in.Ctx
		switch name {
		case "GetPublic":
			return keyValue(&keySt{id: k.id}), true
		case "Raw":
			if k.priv {
				return tuple(opqBytes(ot("privraw", k.id)), nilErr), true
			}
			return tuple(opqBytes(ot("pubraw", k.id)), nilErr), true
		case "Sign":
			return tuple(opqBytes(ot("sig", k.id, in.msgArg(a[1]))), nilErr), true
		case "Verify":
			st, ok := opaqueOfBytes(a[2])
			if !ok || st.Ctor != "sig" {
				return tuple(mkBool(false), nilErr), true // not produced by Sign: never verifies
			}
			if st.Args[0].(int) != k.id {
				return tuple(mkBool(false), nilErr), true
			}
			return tuple(mkSymBool(in.argEq(st.Args[1], in.msgArg(a[1]))), nilErr), true
		case "Type":
			return mkInt(2, 32), true // pb.KeyType_Secp256k1
		case "Equals":
			o := keyOfValue(a[1])
			return mkBool(o != nil && o.id == k.id && o.priv == k.priv), true
		}
		_ = c
		unsupported("key method %s", name)
		return Value{}, true
	}}}
}

// msgArg normalises a message ([]byte) to a comparable term argument.
func (in *Interp) msgArg(v Value) interface{} {
	if t, ok := opaqueOfBytes(v); ok {
		return t
	}
	return v
}

func (in *Interp) keyFromBytes(v Value, wantPriv bool) (*keySt, bool) {
	t, ok := opaqueOfBytes(v)
	if !ok {
		if !wantPriv {
			return in.keyFromParts(v)
		}
		return nil, false
	}
	switch t.Ctor {
	case "privraw":
		if wantPriv {
			return &keySt{id: t.Args[0].(int), priv: true}, true
		}
	case "pubraw", "pubuncomp":
		if !wantPriv {
			return &keySt{id: t.Args[0].(int)}, true
		}
	}
	return nil, false
}

func init() {
	const lp = "github.com/libp2p/go-libp2p/core/crypto."
	ix := map[string]ixFn{
		lp + "GenerateSecp256k1Key": func(in *Interp, fr *Frame, a []Value) (Value, bool) {
			in.keyCount++
			id := in.keyCount
			return tuple(keyValue(&keySt{id: id, priv: true}), keyValue(&keySt{id: id}), nilErr), true
		},
		lp + "UnmarshalSecp256k1PrivateKey": func(in *Interp, fr *Frame, a []Value) (Value, bool) {
			if k, ok := in.keyFromBytes(a[0], true); ok {
				return tuple(keyValue(k), nilErr), true
			}
			return tuple(Value{K: KIface}, in.newErr("malformed private key", Value{})), true
		},
		lp + "UnmarshalSecp256k1PublicKey": func(in *Interp, fr *Frame, a []Value) (Value, bool) {
			if k, ok := in.keyFromBytes(a[0], false); ok {
				return tuple(keyValue(k), nilErr), true
			}
			return tuple(Value{K: KIface}, in.newErr("malformed public key", Value{})), true
		},
		// UnmarshalPublicKey expects the protobuf envelope (type + data); raw key bytes are not one.
		lp + "UnmarshalPublicKey": func(in *Interp, fr *Frame, a []Value) (Value, bool) {
			if t, ok := opaqueOfBytes(a[0]); ok && t.Ctor == "pubproto" {
				return tuple(keyValue(&keySt{id: t.Args[0].(int)}), nilErr), true
			}
			return tuple(Value{K: KIface}, in.newErr("malformed public key envelope", Value{})), true
		},
		lp + "MarshalPublicKey": func(in *Interp, fr *Frame, a []Value) (Value, bool) {
			k := keyOfValue(a[0])
			return tuple(opqBytes(ot("pubproto", k.id)), nilErr), true
		},
		"(github.com/libp2p/go-libp2p/core/crypto/pb.KeyType).String": func(in *Interp, fr *Frame, a []Value) (Value, bool) {
			names := map[uint64]string{0: "RSA", 1: "Ed25519", 2: "Secp256k1", 3: "ECDSA"}
			return mkStr(names[a[0].N]), true
		},
		// btcec
		"github.com/btcsuite/btcd/btcec.S256": func(in *Interp, fr *Frame, a []Value) (Value, bool) {
			return Value{K: KPtr, R: &Value{K: KOpaque, R: "S256"}}, true
		},
		"github.com/btcsuite/btcd/btcec.ParsePubKey": func(in *Interp, fr *Frame, a []Value) (Value, bool) {
			if k, ok := in.keyFromBytes(a[0], false); ok {
				return tuple(Value{K: KPtr, R: &Value{K: KOpaque, R: k}}, nilErr), true
			}
			return tuple(Value{K: KPtr}, in.newErr("malformed public key", Value{})), true
		},
		"github.com/btcsuite/btcd/btcec.IsCompressedPubKey": func(in *Interp, fr *Frame, a []Value) (Value, bool) {
			t, ok := opaqueOfBytes(a[0])
			if !ok && a[0].K == KSlice && a[0].R != nil {
				if s := a[0].R.(*SliceV).S; len(s) == 2 && s[0].K != KOpaque && s[1].K == KOpaque {
					if ob, isOb := s[1].R.(*OpaqueBytes); isOb && ob.T != nil && ob.T.Ctor == "pubx" {
						c := in.Ctx
						b := s[0].Term(c)
						return mkSymBool(c.Or(c.Cmp(smt.OpEq, b, c.BV(2, 8)), c.Cmp(smt.OpEq, b, c.BV(3, 8)))), true
					}
				}
			}
			return mkBool(ok && t.Ctor == "pubraw"), true
		},
		"(*github.com/btcsuite/btcd/btcec.PublicKey).SerializeUncompressed": func(in *Interp, fr *Frame, a []Value) (Value, bool) {
			k := a[0].R.(*Value).R.(*keySt)
			return opqBytes(ot("pubuncomp", k.id)), true
		},
		// base64 / hex: native on concrete bytes, injective constructors otherwise
		"(*encoding/base64.Encoding).EncodeToString": func(in *Interp, fr *Frame, a []Value) (Value, bool) {
			if b, ok := concBytes(a[1]); ok {
				return mkStr(base64.StdEncoding.EncodeToString(b)), true
			}
			return opqStr(ot("b64", in.msgArg(a[1]))), true
		},
		"(*encoding/base64.Encoding).DecodeString": func(in *Interp, fr *Frame, a []Value) (Value, bool) {
			if s, ok := a[1].ConcStr(); ok {
				b, err := base64.StdEncoding.DecodeString(s)
				if err != nil {
					return tuple(Value{K: KSlice}, in.newErr("illegal base64 data", Value{})), true
				}
				return tuple(bytesValue(b), nilErr), true
			}
			if t, ok := opaqueOfStr(a[1]); ok && t.Ctor == "b64" {
				return tuple(in.unmsg(t.Args[0]), nilErr), true
			}
			return tuple(Value{K: KSlice}, in.newErr("illegal base64 data", Value{})), true
		},
		"encoding/hex.EncodeToString": func(in *Interp, fr *Frame, a []Value) (Value, bool) {
			if b, ok := concBytes(a[0]); ok {
				return mkStr(hex.EncodeToString(b)), true
			}
			return opqStr(ot("hex", in.msgArg(a[0]))), true
		},
		"encoding/hex.DecodeString": func(in *Interp, fr *Frame, a []Value) (Value, bool) {
			if s, ok := a[0].ConcStr(); ok {
				b, err := hex.DecodeString(s)
				if err != nil {
					return tuple(bytesValue(b), in.newErr("encoding/hex: invalid", Value{})), true
				}
				return tuple(bytesValue(b), nilErr), true
			}
			if t, ok := opaqueOfStr(a[0]); ok {
				if t.Ctor == "hex" {
					return tuple(in.unmsg(t.Args[0]), nilErr), true
				}
				return tuple(Value{K: KSlice}, in.newErr("encoding/hex: invalid", Value{})), true
			}
			return in.hexDecodeSym(a[0]), true
		},
		"github.com/ipfs/go-datastore.NewKey": func(in *Interp, fr *Frame, a []Value) (Value, bool) {
			if _, ok := a[0].ConcStr(); ok {
				return declined()
			}
			// opaque key names (hex of a public key) contain no path separators: Clean only prefixes "/"
			return Value{K: KStruct, R: []Value{concatStr(mkStr("/"), a[0])}}, true
		},
		"crypto/rand.Read": func(in *Interp, fr *Frame, a []Value) (Value, bool) {
			// fresh arbitrary bytes
			if a[0].R != nil {
				s := a[0].R.(*SliceV).S
				name := in.freshName("rand")
				for i := range s {
					s[i] = mkSymInt(in.Ctx.Var(name+"["+itoa(i)+"]", 8))
				}
				return tuple(mkInt(uint64(len(s)), 64), nilErr), true
			}
			return tuple(mkInt(0, 64), nilErr), true
		},
	}
	for k, f := range ix {
		intrinsics[k] = f
	}
}

func itoa(i int) string { return fmtInt(i) }

func fmtInt(i int) string {
	if i == 0 {
		return "0"
	}
	neg := i < 0
	if neg {
		i = -i
	}
	var b []byte
	for i > 0 {
		b = append([]byte{byte('0' + i%10)}, b...)
		i /= 10
	}
	if neg {
		b = append([]byte{'-'}, b...)
	}
	return string(b)
}

// unmsg is the inverse of msgArg.
func (in *Interp) unmsg(a interface{}) Value {
	switch x := a.(type) {
	case *OTerm:
		return opqBytes(x)
	case Value:
		return x
	}
	return Value{K: KSlice}
}

func concBytes(v Value) ([]byte, bool) {
	if v.K != KSlice {
		return nil, false
	}
	if v.R == nil {
		return nil, true
	}
	s := v.R.(*SliceV).S
	out := make([]byte, len(s))
	for i, b := range s {
		if b.K != KInt || b.R != nil {
			return nil, false
		}
		out[i] = byte(b.N)
	}
	return out, true
}

func bytesValue(b []byte) Value {
	out := make([]Value, len(b))
	for i, x := range b {
		out[i] = mkInt(uint64(x), 8)
	}
	return Value{K: KSlice, R: &SliceV{S: out}}
}

// hexDecodeSym decodes a string of symbolic characters: forks on "is valid hex" and builds the byte terms.
func (in *Interp) hexDecodeSym(s Value) Value {
	c := in.Ctx
	bs, ok := in.ropeBytes(s)
	if !ok {
		return tuple(Value{K: KSlice}, in.newErr("encoding/hex: invalid", Value{}))
	}
	if len(bs)%2 == 1 {
		// hex.DecodeString decodes the even prefix and reports ErrLength; callers only look at the error
		return tuple(Value{K: KSlice}, in.newErr("encoding/hex: odd length hex string", Value{}))
	}
	valid := c.T
	nib := func(ch *smt.Term) (*smt.Term, *smt.Term) {
		rng := func(lo, hi byte) *smt.Term {
			return c.And(c.Cmp(smt.OpULe, c.BV(uint64(lo), 8), ch), c.Cmp(smt.OpULe, ch, c.BV(uint64(hi), 8)))
		}
		d, lc, uc := rng('0', '9'), rng('a', 'f'), rng('A', 'F')
		v := c.Ite(d, c.Bin(smt.OpSub, ch, c.BV('0', 8)), c.Ite(lc, c.Bin(smt.OpSub, ch, c.BV('a'-10, 8)), c.Bin(smt.OpSub, ch, c.BV('A'-10, 8))))
		return v, c.Or(d, c.Or(lc, uc))
	}
	out := make([]Value, len(bs)/2)
	for i := range out {
		h, okh := nib(bs[2*i])
		l, okl := nib(bs[2*i+1])
		valid = c.And(valid, c.And(okh, okl))
		out[i] = mkSymInt(c.Bin(smt.OpOr, c.Bin(smt.OpShl, h, c.BV(4, 8)), l))
	}
	if in.Branch(valid, "hex.DecodeString") {
		return tuple(Value{K: KSlice, R: &SliceV{S: out}}, nilErr)
	}
	return tuple(Value{K: KSlice}, in.newErr("encoding/hex: invalid byte", Value{}))
}

// ---- sha3 / secretbox (ideal) and fmt.Sprintf (injective in its operands) ----

var hashType = types.NewNamed(types.NewTypeName(token.NoPos, nil, "engineHash", nil), types.NewStruct(nil, nil), nil)

type hashSt struct{ parts []interface{} }

func (in *Interp) hashMethod(name string) Value {
	return Value{K: KFunc, R: &Intrinsic{Name: "hash.Hash." + name, F: func(in *Interp, fr *Frame, a []Value) (Value, bool) {
		h := a[0].R.(*hashSt)
		switch name {
		case "Write":
			h.parts = append(h.parts, in.msgArg(a[1]))
			n := 0
			if a[1].R != nil {
				n = len(a[1].R.(*SliceV).S)
			}
			return tuple(mkInt(uint64(n), 64), nilErr), true
		case "Sum":
			// collision-free digest: 32 cells, the i-th being byte i of digest(parts)
			d := &OTerm{Ctor: "sha3-256", Args: append([]interface{}{}, h.parts...)}
			var out []Value
			if a[1].R != nil {
				out = append(out, a[1].R.(*SliceV).S...)
			}
			for i := 0; i < 32; i++ {
				out = append(out, Value{K: KOpaque, R: &OpaqueBytes{T: ot("byte", i, d)}})
			}
			return Value{K: KSlice, R: &SliceV{S: out}}, true
		case "Reset":
			h.parts = nil
			return Value{}, true
		case "Size":
			return mkInt(32, 64), true
		case "BlockSize":
			return mkInt(136, 64), true
		}
		unsupported("hash method %s", name)
		return Value{}, true
	}}}
}

func arrayCells(p Value) []Value {
	if p.R == nil {
		return nil
	}
	return p.R.(*Value).R.([]Value)
}

func init() {
	ix := map[string]ixFn{
		"golang.org/x/crypto/sha3.New256": func(in *Interp, fr *Frame, a []Value) (Value, bool) {
			return Value{K: KIface, R: &IfaceV{T: hashType, V: Value{K: KOpaque, R: &hashSt{}}}}, true
		},
		// secretbox.Seal(out, message, nonce *[24]byte, key *[32]byte) []byte : ideal authenticated encryption
		"golang.org/x/crypto/nacl/secretbox.Seal": func(in *Interp, fr *Frame, a []Value) (Value, bool) {
			key := Value{K: KSlice, R: &SliceV{S: arrayCells(a[3])}}
			nonce := Value{K: KSlice, R: &SliceV{S: append([]Value{}, arrayCells(a[2])...)}}
			return opqBytes(ot("seal", copySlice(key), nonce, in.msgArg(a[1]))), true
		},
		"golang.org/x/crypto/nacl/secretbox.Open": func(in *Interp, fr *Frame, a []Value) (Value, bool) {
			t, ok := opaqueOfBytes(a[1])
			if !ok || t.Ctor != "seal" {
				return tuple(Value{K: KSlice}, mkBool(false)), true // not a box sealed by anyone: authentication fails
			}
			key := Value{K: KSlice, R: &SliceV{S: arrayCells(a[3])}}
			nonce := Value{K: KSlice, R: &SliceV{S: arrayCells(a[2])}}
			same := in.Ctx.And(in.bytesEqTerm(t.Args[0].(Value), key), in.bytesEqTerm(t.Args[1].(Value), nonce))
			if in.Branch(same, "secretbox.Open key/nonce") {
				return tuple(in.unmsg(t.Args[2]), mkBool(true)), true
			}
			return tuple(Value{K: KSlice}, mkBool(false)), true
		},
		"fmt.Sprintf": func(in *Interp, fr *Frame, a []Value) (Value, bool) {
			if v, ok := in.fmtSprintf(concStrArg(a[0]), sliceArgs(a[1])); ok {
				return v, true
			}
			args := []interface{}{concStrArg(a[0])}
			if len(a) > 1 && a[1].R != nil {
				for _, arg := range a[1].R.(*SliceV).S {
					if arg.R == nil {
						args = append(args, nil)
						continue
					}
					iv := arg.R.(*IfaceV)
					switch iv.V.K {
					case KInt, KBool, KStr:
						args = append(args, iv.V)
					case KSlice:
						args = append(args, in.msgArg(iv.V))
					default:
						args = append(args, "<"+iv.T.String()+">")
					}
				}
			}
			return opqStr(&OTerm{Ctor: "sprintf", Args: args}), true
		},
	}
	for k, f := range ix {
		intrinsics[k] = f
	}
}

func copySlice(v Value) Value {
	if v.R == nil {
		return v
	}
	return Value{K: KSlice, R: &SliceV{S: append([]Value{}, v.R.(*SliceV).S...)}}
}
