package interp

import (
	"go/token"
	"go/types"
	"strings"

	"golang.org/x/tools/go/ssa"
)

// ---- sync objects for the exploring scheduler ----

type condSt struct {
	L       Value // sync.Locker interface value
	waiters []*G
}

type semSt struct{ size, cur int64 }

type ChanV struct {
	buf    []Value
	cap    int
	closed bool
}

// acquire-type operations are scheduling points in explore mode.
var acquireOps = map[string]bool{
	"(*sync.RWMutex).Lock": true, "(*sync.RWMutex).RLock": true, "(*sync.Mutex).Lock": true,
	"(*sync.WaitGroup).Wait": true, "(*sync.Cond).Wait": true,
	"(*golang.org/x/sync/semaphore.Weighted).Acquire": true,
}

// readyFns: would the acquire succeed now? (pure)
var readyFns = map[string]func(in *Interp, g *G, a []Value) bool{
	"(*sync.RWMutex).Lock": func(in *Interp, g *G, a []Value) bool {
		m := in.mutexOf(a[0])
		if m.writer || (m.pending != nil && m.pending != g) {
			return false
		}
		// with readers inside, the first step (announcing the pending writer) can still be taken
		return m.readers == 0 || m.pending == nil
	},
	"(*sync.RWMutex).RLock": func(in *Interp, g *G, a []Value) bool {
		m := in.mutexOf(a[0])
		return !m.writer && m.pending == nil
	},
	"(*sync.Mutex).Lock":    func(in *Interp, g *G, a []Value) bool { return !in.mutexOf(a[0]).writer },
	"(*sync.WaitGroup).Wait": func(in *Interp, g *G, a []Value) bool {
		s, ok := in.side[a[0].R.(*Value)].(*wgSt)
		return !ok || s.n <= 0
	},
	"(*sync.Cond).Wait": func(in *Interp, g *G, a []Value) bool {
		if !g.condWaiting {
			return true // phase 1 always possible
		}
		if !g.condSignalled {
			return false
		}
		c := in.side[a[0].R.(*Value)].(*condSt)
		return in.lockerFree(c.L)
	},
	"(*golang.org/x/sync/semaphore.Weighted).Acquire": func(in *Interp, g *G, a []Value) bool {
		s := in.side[a[0].R.(*Value)].(*semSt)
		if c := ctxOf(a[1]); c != nil && c.done != nil && c.done.closed {
			return true
		}
		return s.cur+sextW(a[2].N, 64) <= s.size
	},
}

func (in *Interp) lockerFree(l Value) bool {
	iv := l.R.(*IfaceV)
	m := in.mutexOf(iv.V)
	return !m.writer && m.readers == 0
}

// syncPoint reports whether g's next instruction is an acquire-type operation and returns its readiness.
func (in *Interp) syncPoint(g *G) (isSync bool, ready bool) {
	fr := g.top
	if fr == nil || fr.Fn == nil || fr.pc >= len(fr.blk.Instrs) {
		return false, true
	}
	switch ins := fr.blk.Instrs[fr.pc].(type) {
	case *ssa.Call:
		if ins.Call.IsInvoke() {
			return false, true
		}
		callee := ins.Call.StaticCallee()
		if callee == nil {
			return false, true
		}
		name := callee.String()
		if !acquireOps[name] {
			return false, true
		}
		args := make([]Value, len(ins.Call.Args))
		for i, a := range ins.Call.Args {
			args[i] = in.get(fr, a)
		}
		return true, readyFns[name](in, g, args)
	case *ssa.Send:
		ch := in.get(fr, ins.Chan).R.(*ChanV)
		return true, in.sendReady(g, ch)
	case *ssa.Select:
		if !ins.Blocking {
			return true, true
		}
		return true, len(in.selectReady(g, fr, ins)) > 0
	case *ssa.UnOp:
		if ins.Op == token.ARROW {
			ch := in.get(fr, ins.X).R.(*ChanV)
			return true, in.recvReady(g, ch)
		}
	}
	return false, true
}

// RunExplore: all interleavings at acquire points (optionally preemption-bounded).
func (in *Interp) RunExplore(fn *ssa.Function) {
	main := &G{id: 0, path: "0"}
	in.gs = []*G{main}
	in.cur = main
	in.runInits(main, fn)
	in.pushFrame(main, fn, nil, nil, nil)
	cur := main
	preempt := 0
	for !main.done {
		isSync, _ := in.syncPoint(cur)
		if !cur.done && !isSync && !in.yieldNow {
			in.cur = cur
			in.runStep(cur)
			continue
		}
		in.yieldNow = false
		// scheduling point: collect enabled goroutines
		var enabled []*G
		curEnabled := false
		for _, g := range in.gs {
			if g.done {
				continue
			}
			_, rdy := in.syncPoint(g)
			if rdy {
				enabled = append(enabled, g)
				if g == cur {
					curEnabled = true
				}
			}
		}
		if len(enabled) == 0 {
			if in.fireTimer() {
				continue
			}
			in.reportDeadlock()
			panic(abortPath{"deadlock"})
		}
		var next *G
		if in.exploreOff {
			// deterministic region: keep running the current goroutine, else the oldest enabled one
			if curEnabled {
				next = cur
			} else {
				next = enabled[0]
			}
		} else if curEnabled && in.PreemptBound >= 0 && preempt >= in.PreemptBound {
			next = cur
		} else {
			k := in.Pick(len(enabled), "sched")
			next = enabled[k]
			in.schedTrace = append(in.schedTrace, next.id)
			if curEnabled && next != cur {
				preempt++
			}
		}
		in.Stats.SchedPoints++
		cur = next
		in.cur = cur
		in.runStep(cur) // executes the sync op (ready by construction)
	}
}

func (in *Interp) reportDeadlock() {
	_, m := in.Sol.Check(nil, true, in.modelVars())
	var where []string
	for _, g := range in.gs {
		if !g.done && g.top != nil && g.top.Fn != nil {
			where = append(where, in.panicSite(g))
		}
	}
	in.addViolation("DEADLOCK", "all goroutines blocked", m, false, strings.Join(where, ","))
}

// ---- unbuffered channels: rendezvous -----------------------------------------------------------------
//
// A send on a channel of capacity 0 can proceed only when another goroutine stands at a receive on the same
// channel (a plain receive or a blocking select with such a case), and vice versa; whichever of the two is
// scheduled performs the hand-over and completes the partner's instruction as well.

type chanPoint struct {
	g    *G
	fr   *Frame
	send *ssa.Send
	recv *ssa.UnOp
	sel  *ssa.Select
	k    int
}

func (in *Interp) chanPartner(self *G, ch *ChanV, wantSend bool) *chanPoint {
	for _, g := range in.gs {
		if g == self || g.done || g.top == nil || g.top.Fn == nil {
			continue
		}
		fr := g.top
		if fr.blk == nil || fr.pc >= len(fr.blk.Instrs) {
			continue
		}
		switch ins := fr.blk.Instrs[fr.pc].(type) {
		case *ssa.Send:
			if wantSend && in.get(fr, ins.Chan).R == interface{}(ch) {
				return &chanPoint{g: g, fr: fr, send: ins}
			}
		case *ssa.UnOp:
			if !wantSend && ins.Op == token.ARROW && in.get(fr, ins.X).R == interface{}(ch) {
				return &chanPoint{g: g, fr: fr, recv: ins}
			}
		case *ssa.Select:
			if !ins.Blocking {
				continue
			}
			for k, st := range ins.States {
				if (st.Dir == types.SendOnly) == wantSend && in.get(fr, st.Chan).R == interface{}(ch) {
					return &chanPoint{g: g, fr: fr, sel: ins, k: k}
				}
			}
		}
	}
	return nil
}

func (in *Interp) sendReady(g *G, ch *ChanV) bool {
	if ch.closed || len(ch.buf) < ch.cap {
		return true
	}
	return ch.cap == 0 && in.chanPartner(g, ch, false) != nil
}

func (in *Interp) recvReady(g *G, ch *ChanV) bool {
	if ch.closed || len(ch.buf) > 0 {
		return true
	}
	return ch.cap == 0 && in.chanPartner(g, ch, true) != nil
}

func selectResult(ins *ssa.Select, k int) []Value {
	tt := ins.Type().(*types.Tuple)
	res := make([]Value, tt.Len())
	for i := range res {
		res[i] = zero(tt.At(i).Type())
	}
	res[0] = mkInt(uint64(k), 64)
	return res
}

func selectRecvSlot(ins *ssa.Select, k int) int {
	ri := 2
	for j := 0; j < k; j++ {
		if ins.States[j].Dir != types.SendOnly {
			ri++
		}
	}
	return ri
}

// handOver gives v (sent by the current goroutine) to the receiver standing at p and completes its receive.
func (in *Interp) handOver(ch *ChanV, p *chanPoint, v Value) {
	in.raceRelease(ch)
	saved := in.cur
	in.cur = p.g
	in.raceAcquire(ch)
	in.raceRelease(ch) // the receive also happens before the completion of the send
	in.cur = saved
	in.raceAcquire(ch)
	if p.recv != nil {
		if p.recv.CommaOk {
			in.set(p.fr, p.recv, Value{K: KTuple, R: []Value{v, mkBool(true)}})
		} else {
			in.set(p.fr, p.recv, v)
		}
	} else {
		res := selectResult(p.sel, p.k)
		res[1] = mkBool(true)
		res[selectRecvSlot(p.sel, p.k)] = v
		in.set(p.fr, p.sel, Value{K: KTuple, R: res})
	}
	p.fr.pc++
	p.g.block = ""
}

// takeFrom takes the value of the sender standing at p (for the current goroutine) and completes its send.
func (in *Interp) takeFrom(ch *ChanV, p *chanPoint) Value {
	var v Value
	if p.send != nil {
		v = copyVal(in.get(p.fr, p.send.X))
	} else {
		v = copyVal(in.get(p.fr, p.sel.States[p.k].Send))
		in.set(p.fr, p.sel, Value{K: KTuple, R: selectResult(p.sel, p.k)})
	}
	saved := in.cur
	in.cur = p.g
	in.raceRelease(ch)
	in.cur = saved
	in.raceAcquire(ch)
	in.raceRelease(ch)
	in.cur = p.g
	in.raceAcquire(ch)
	in.cur = saved
	p.fr.pc++
	p.g.block = ""
	return v
}

func (in *Interp) selectReady(g *G, fr *Frame, ins *ssa.Select) []int {
	var ready []int
	for i, st := range ins.States {
		cv := in.get(fr, st.Chan)
		if cv.R == nil {
			continue
		}
		ch := cv.R.(*ChanV)
		if st.Dir == types.SendOnly {
			if in.sendReady(g, ch) {
				ready = append(ready, i)
			}
		} else if in.recvReady(g, ch) {
			ready = append(ready, i)
		}
	}
	return ready
}

func (in *Interp) selectOp(g *G, fr *Frame, ins *ssa.Select) {
	ready := in.selectReady(g, fr, ins)
	tt := ins.Type().(*types.Tuple)
	res := make([]Value, tt.Len())
	for i := range res {
		res[i] = zero(tt.At(i).Type())
	}
	if len(ready) == 0 {
		if ins.Blocking {
			fr.pc--
			g.block = "select"
			return
		}
		res[0] = mkInt(^uint64(0), 64)
		in.set(fr, ins, Value{K: KTuple, R: res})
		return
	}
	k := ready[in.Pick(len(ready), "select")]
	st := ins.States[k]
	ch := in.get(fr, st.Chan).R.(*ChanV)
	res[0] = mkInt(uint64(k), 64)
	if st.Dir == types.SendOnly {
		if ch.closed {
			in.goPanic(g, "send on closed channel")
			return
		}
		if p := in.chanPartner(g, ch, false); ch.cap == 0 && p != nil {
			in.set(fr, ins, Value{K: KTuple, R: res})
			in.handOver(ch, p, copyVal(in.get(fr, st.Send)))
			return
		}
		ch.buf = append(ch.buf, copyVal(in.get(fr, st.Send)))
	} else {
		// position of this receive among the receive states
		ri := 2
		for j := 0; j < k; j++ {
			if ins.States[j].Dir != types.SendOnly {
				ri++
			}
		}
		if len(ch.buf) > 0 {
			res[ri] = ch.buf[0]
			ch.buf = ch.buf[1:]
			res[1] = mkBool(true)
		} else if p := in.chanPartner(g, ch, true); !ch.closed && ch.cap == 0 && p != nil {
			res[ri] = in.takeFrom(ch, p)
			res[1] = mkBool(true)
		} else {
			res[1] = mkBool(false)
		}
	}
	in.set(fr, ins, Value{K: KTuple, R: res})
}
