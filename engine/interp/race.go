package interp

import (
	"fmt"
	"sort"
)

// ---- happens-before data-race detection (vector clocks, FastTrack-like shadow cells) ----
//
// Enabled per run (RunConfig.Race). Every load/store of a heap cell (*Value) and every map operation is
// checked against the cell's last write and the reads since: two accesses to one cell, at least one of
// them a write, by different goroutines, not ordered by happens-before, are a data race. Edges:
// go -> child start, Unlock -> Lock, RUnlock -> Lock, Unlock -> RLock, Done -> Wait, Release -> Acquire,
// send -> receive, close -> receive, vx.Atomic (a global lock).

type vclock []int

func (v vclock) get(i int) int {
	if i < len(v) {
		return v[i]
	}
	return 0
}

func (v *vclock) join(o vclock) {
	for len(*v) < len(o) {
		*v = append(*v, 0)
	}
	for i, x := range o {
		if x > (*v)[i] {
			(*v)[i] = x
		}
	}
}

func (v vclock) copy() vclock { return append(vclock{}, v...) }

type access struct {
	g    int
	clk  int
	site string
}

type shadow struct {
	w     access
	hasW  bool
	reads []access
}

type raceState struct {
	on      bool
	cells   map[interface{}]*shadow
	objVC   map[interface{}]*vclock // release clocks of sync objects
	atomic  vclock
	reported map[string]bool
}

func (in *Interp) gvc(g *G) *vclock {
	if g.vcl == nil {
		g.vcl = make(vclock, g.id+1)
		g.vcl[g.id] = 1
	}
	for len(g.vcl) <= g.id {
		g.vcl = append(g.vcl, 0)
	}
	return &g.vcl
}

func (in *Interp) raceTick(g *G) {
	v := in.gvc(g)
	(*v)[g.id]++
}

// raceRelease: g releases sync object k (its clock is published to later acquirers).
func (in *Interp) raceRelease(k interface{}) {
	if !in.RaceDetect || in.cur == nil {
		return
	}
	g := in.cur
	vc := in.race.objVC[k]
	if vc == nil {
		vc = &vclock{}
		in.race.objVC[k] = vc
	}
	vc.join(*in.gvc(g))
	in.raceTick(g)
}

func (in *Interp) raceAcquire(k interface{}) {
	if !in.RaceDetect || in.cur == nil {
		return
	}
	if vc := in.race.objVC[k]; vc != nil {
		in.gvc(in.cur).join(*vc)
	}
}

func (in *Interp) raceFork(parent, child *G) {
	if !in.RaceDetect {
		return
	}
	in.race.on = true
	child.vcl = in.gvc(parent).copy()
	for len(child.vcl) <= child.id {
		child.vcl = append(child.vcl, 0)
	}
	child.vcl[child.id] = 1
	in.raceTick(parent)
}

func (in *Interp) accessSite() string {
	g := in.cur
	if g == nil || g.top == nil {
		return "?"
	}
	for fr := g.top; fr != nil; fr = fr.caller {
		if fr.Fn == nil {
			continue
		}
		pos := in.posOf(fr)
		return fmt.Sprintf("%s:%d", relRepo(pos.Filename), pos.Line)
	}
	return "?"
}

// raceAccess checks and records one access to cell k.
func (in *Interp) raceAccess(k interface{}, write bool) {
	if !in.RaceDetect || !in.race.on || in.cur == nil || in.initMode {
		return
	}
	g := in.cur
	vc := *in.gvc(g)
	sh := in.race.cells[k]
	if sh == nil {
		sh = &shadow{}
		in.race.cells[k] = sh
	}
	me := access{g: g.id, clk: vc.get(g.id)}
	if sh.hasW && sh.w.g != g.id && sh.w.clk > vc.get(sh.w.g) {
		me.site = in.accessSite()
		in.reportRace(sh.w, me, true, write)
	}
	if write {
		for _, r := range sh.reads {
			if r.g != g.id && r.clk > vc.get(r.g) {
				if me.site == "" {
					me.site = in.accessSite()
				}
				in.reportRace(r, me, false, true)
			}
		}
		me.site = in.accessSite()
		sh.w, sh.hasW = me, true
		sh.reads = sh.reads[:0]
		return
	}
	for i := range sh.reads {
		if sh.reads[i].g == g.id {
			sh.reads[i].clk = me.clk
			return
		}
	}
	me.site = in.accessSite()
	sh.reads = append(sh.reads, me)
}

func (in *Interp) reportRace(prev, cur access, prevWrite, curWrite bool) {
	kind := func(w bool) string {
		if w {
			return "write"
		}
		return "read"
	}
	a := kind(prevWrite) + " " + prev.site
	b := kind(curWrite) + " " + cur.site
	ss := []string{a, b}
	sort.Strings(ss)
	msg := "data race: " + ss[0] + " / " + ss[1]
	if in.race.reported[msg] {
		return
	}
	in.race.reported[msg] = true
	_, m := in.Sol.Check(nil, true, in.modelVars())
	in.addViolation("RACE", msg, m, false, fmt.Sprintf("goroutines %d and %d", prev.g, cur.g))
}

// raceTouch records an access to the cell p and, for aggregates, to every nested cell.
func (in *Interp) raceTouch(p *Value, write bool) {
	if !in.RaceDetect || !in.race.on {
		return
	}
	in.raceAccess(p, write)
	in.raceTouchNested(p, write)
}

func (in *Interp) raceTouchNested(p *Value, write bool) {
	if p.K == KStruct || p.K == KArray {
		fs := p.R.([]Value)
		for i := range fs {
			in.raceAccess(&fs[i], write)
			in.raceTouchNested(&fs[i], write)
		}
	}
}
