package interp

import (
	"go/types"
)

func (in *Interp) namedType(pkg, name string) types.Type {
	p := in.Prog.ImportedPackage(pkg)
	if p == nil {
		unsupported("package %s not loaded", pkg)
	}
	return p.Type(name).Type()
}

func init() {
	extra := map[string]ixFn{
		"sync.NewCond": func(in *Interp, fr *Frame, a []Value) (Value, bool) {
			p := new(Value)
			*p = zero(in.namedType("sync", "Cond"))
			p.R.([]Value)[1] = a[0]
			in.side[p] = &condSt{L: a[0]}
			return Value{K: KPtr, R: p}, true
		},
		"(*sync.Cond).Wait": func(in *Interp, fr *Frame, a []Value) (Value, bool) {
			g := in.cur
			c := in.side[a[0].R.(*Value)].(*condSt)
			m := in.mutexOf(c.L.R.(*IfaceV).V)
			if !g.condWaiting {
				m.writer = false
				in.raceRelease(m)
				c.waiters = append(c.waiters, g)
				g.condWaiting, g.condSignalled = true, false
				in.yieldNow = true
				return Value{}, false
			}
			if g.condSignalled && !m.writer && m.readers == 0 {
				m.writer = true
				g.condWaiting = false
				in.raceAcquire(m)
				in.raceAcquire(&m.readers)
				return Value{}, true
			}
			return Value{}, false
		},
		"(*sync.Cond).Signal": func(in *Interp, fr *Frame, a []Value) (Value, bool) {
			c := in.side[a[0].R.(*Value)].(*condSt)
			if len(c.waiters) > 0 {
				c.waiters[0].condSignalled = true
				c.waiters = c.waiters[1:]
			}
			return Value{}, true
		},
		"(*sync.Cond).Broadcast": func(in *Interp, fr *Frame, a []Value) (Value, bool) {
			c := in.side[a[0].R.(*Value)].(*condSt)
			for _, w := range c.waiters {
				w.condSignalled = true
			}
			c.waiters = nil
			return Value{}, true
		},
		"golang.org/x/sync/semaphore.NewWeighted": func(in *Interp, fr *Frame, a []Value) (Value, bool) {
			p := new(Value)
			*p = zero(in.namedType("golang.org/x/sync/semaphore", "Weighted"))
			in.side[p] = &semSt{size: sextW(a[0].N, 64)}
			return Value{K: KPtr, R: p}, true
		},
		"(*golang.org/x/sync/semaphore.Weighted).Acquire": func(in *Interp, fr *Frame, a []Value) (Value, bool) {
			s := in.side[a[0].R.(*Value)].(*semSt)
			n := sextW(a[2].N, 64)
			if c := ctxOf(a[1]); c != nil && c.done != nil && c.done.closed {
				return c.err, true // ctx done "happened before": fail even if a slot is free
			}
			if s.cur+n <= s.size {
				s.cur += n
				in.raceAcquire(s)
				return nilErr, true
			}
			return Value{}, false
		},
		"(*golang.org/x/sync/semaphore.Weighted).Release": func(in *Interp, fr *Frame, a []Value) (Value, bool) {
			s := in.side[a[0].R.(*Value)].(*semSt)
			s.cur -= sextW(a[1].N, 64)
			in.raceRelease(s)
			return Value{}, true
		},
		"errors.New": func(in *Interp, fr *Frame, a []Value) (Value, bool) {
			return in.newErr("errors.New:"+concStrArg(a[0]), Value{}), true
		},
	}
	for k, v := range extra {
		intrinsics[k] = v
	}
}
