package interp

import (
	"fmt"

	"gosx/smt"
)

const vxPkg = "berty.tech/go-ipfs-log/internal/vx."

func init() {
	vx := map[string]ixFn{
		"Param": func(in *Interp, fr *Frame, a []Value) (Value, bool) {
			name := concStrArg(a[0])
			if v, ok := in.Params[name]; ok {
				return mkInt(uint64(int64(v)), 64), true
			}
			return a[1], true
		},
		"Int": func(in *Interp, fr *Frame, a []Value) (Value, bool) {
			n := in.freshName(concStrArg(a[0]))
			t := in.Ctx.Var(n, 64)
			in.recordScalar(n, t, 0)
			return mkSymInt(t), true
		},
		"Uint64": func(in *Interp, fr *Frame, a []Value) (Value, bool) {
			n := in.freshName(concStrArg(a[0]))
			t := in.Ctx.Var(n, 64)
			in.recordScalar(n, t, 0)
			return mkSymInt(t), true
		},
		"IntRange": func(in *Interp, fr *Frame, a []Value) (Value, bool) {
			c := in.Ctx
			n := in.freshName(concStrArg(a[0]))
			v := c.Var(n, 64)
			in.recordScalar(n, v, 0)
			in.Assume(c.And(c.Cmp(smt.OpSLe, a[1].Term(c), v), c.Cmp(smt.OpSLe, v, a[2].Term(c))))
			return mkSymInt(v), true
		},
		"Bool": func(in *Interp, fr *Frame, a []Value) (Value, bool) {
			n := in.freshName(concStrArg(a[0]))
			t := in.Ctx.Var(n, 0)
			in.recordScalar(n, t, 0)
			return mkSymBool(t), true
		},
		"Byte": func(in *Interp, fr *Frame, a []Value) (Value, bool) {
			n := in.freshName(concStrArg(a[0]))
			t := in.Ctx.Var(n, 8)
			in.recordScalar(n, t, 0)
			return mkSymInt(t), true
		},
		"Choice": func(in *Interp, fr *Frame, a []Value) (Value, bool) {
			n := in.freshName(concStrArg(a[0]))
			k := in.Pick(int(a[1].N), "choice "+n)
			in.recordScalar(n, nil, uint64(k))
			return mkInt(uint64(k), 64), true
		},
		"Bytes": func(in *Interp, fr *Frame, a []Value) (Value, bool) {
			name := in.freshName(concStrArg(a[0]))
			maxLen := int(a[1].N)
			n := in.Pick(maxLen+1, "len "+name)
			return in.symBytes(name, n), true
		},
		"BytesN": func(in *Interp, fr *Frame, a []Value) (Value, bool) {
			name := in.freshName(concStrArg(a[0]))
			return in.symBytes(name, int(a[1].N)), true
		},
		// AlterKeyY: an uncompressed public key whose Y coordinate is replaced by another value of the same parity
		"AlterKeyY": func(in *Interp, fr *Frame, a []Value) (Value, bool) {
			t, ok := opaqueOfBytes(a[0])
			if !ok || t.Ctor != "pubuncomp" {
				unsupported("AlterKeyY of something that is not an uncompressed public key")
			}
			return opqBytes(ot("pubuncompT", t.Args[0], 1)), true
		},
		// AltForm: the other form of an (abstract) block identifier: a distinct identifier, the same for the same argument
		"AltForm": func(in *Interp, fr *Frame, a []Value) (Value, bool) {
			if at, ok := cidAtom(a[0]); ok {
				return cidOf(in.newAtom("cid", "alt:"+at.Key)), true
			}
			if t, ok := opaqueOfStr(a[0].R.([]Value)[0]); ok && t.Ctor == "cidof" {
				return Value{K: KStruct, R: []Value{opqStr(ot("cidof", ot("altform", t.Args[0])))}}, true
			}
			return declined() // a real identifier: the native definition runs
		},
		// Native: false under the engine (harness code that only prepares the native run is skipped)
		"Native": func(in *Interp, fr *Frame, a []Value) (Value, bool) { return mkBool(false), true },
		// AssumeKeyY: the leading byte of the Y coordinate of this key's public point is zero (or not)
		"AssumeKeyY": func(in *Interp, fr *Frame, a []Value) (Value, bool) {
			k := keyOfValue(a[0])
			if k == nil {
				unsupported("AssumeKeyY of something that is not a key")
			}
			c := in.Ctx
			in.Assume(c.Cmp(smt.OpEq, in.yShort(k.id), a[1].Term(c)))
			return Value{}, true
		},
		"Cid": func(in *Interp, fr *Frame, a []Value) (Value, bool) {
			return cidOf(in.newAtom("cid", fmt.Sprintf("c%d", a[0].N))), true
		},
		"FreshCid": func(in *Interp, fr *Frame, a []Value) (Value, bool) {
			return cidOf(in.newAtom("cid", in.freshName("f"))), true
		},
		"Assume": func(in *Interp, fr *Frame, a []Value) (Value, bool) {
			in.Assume(a[0].Term(in.Ctx))
			return Value{}, true
		},
		"Assert": func(in *Interp, fr *Frame, a []Value) (Value, bool) {
			in.Assert(concStrArg(a[0]), a[1].Term(in.Ctx), concStrArg(a[2]))
			return Value{}, true
		},
		"Sig": func(in *Interp, fr *Frame, a []Value) (Value, bool) {
			in.sigTags = append(in.sigTags, concStrArg(a[0]))
			return Value{}, true
		},
		"Cover": func(in *Interp, fr *Frame, a []Value) (Value, bool) {
			in.Cover[concStrArg(a[0])] = true
			return Value{}, true
		},
		"Observe": func(in *Interp, fr *Frame, a []Value) (Value, bool) {
			in.obs = append(in.obs, obsRec{concStrArg(a[0]), a[1]})
			return Value{}, true
		},
		"ObserveS": func(in *Interp, fr *Frame, a []Value) (Value, bool) {
			in.obs = append(in.obs, obsRec{concStrArg(a[0]), a[1]})
			return Value{}, true
		},
		"ObserveB": func(in *Interp, fr *Frame, a []Value) (Value, bool) {
			in.obs = append(in.obs, obsRec{concStrArg(a[0]), a[1]})
			return Value{}, true
		},
		"And": func(in *Interp, fr *Frame, a []Value) (Value, bool) {
			return mkSymBool(in.Ctx.And(a[0].Term(in.Ctx), a[1].Term(in.Ctx))), true
		},
		"Or": func(in *Interp, fr *Frame, a []Value) (Value, bool) {
			return mkSymBool(in.Ctx.Or(a[0].Term(in.Ctx), a[1].Term(in.Ctx))), true
		},
		"Not": func(in *Interp, fr *Frame, a []Value) (Value, bool) {
			return mkSymBool(in.Ctx.Not(a[0].Term(in.Ctx))), true
		},
		"Implies": func(in *Interp, fr *Frame, a []Value) (Value, bool) {
			return mkSymBool(in.Ctx.Or(in.Ctx.Not(a[0].Term(in.Ctx)), a[1].Term(in.Ctx))), true
		},
		"Ite": func(in *Interp, fr *Frame, a []Value) (Value, bool) {
			return mkSymInt(in.Ctx.Ite(a[0].Term(in.Ctx), a[1].Term(in.Ctx), a[2].Term(in.Ctx))), true
		},
		"Sgn": func(in *Interp, fr *Frame, a []Value) (Value, bool) {
			c := in.Ctx
			x := a[0].Term(c)
			z := c.BV(0, 64)
			return mkSymInt(c.Ite(c.Cmp(smt.OpSLt, x, z), c.BV(^uint64(0), 64), c.Ite(c.Cmp(smt.OpEq, x, z), z, c.BV(1, 64)))), true
		},
		"ExploreOn": func(in *Interp, fr *Frame, a []Value) (Value, bool) {
			in.exploreOff = false
			return Value{}, true
		},
		"ExploreOff": func(in *Interp, fr *Frame, a []Value) (Value, bool) {
			in.exploreOff = true
			return Value{}, true
		},
		"Atomic": func(in *Interp, fr *Frame, a []Value) (Value, bool) {
			in.raceAcquire(&in.race.atomic)
			in.CallSync(a[0], nil) // no scheduling point inside
			in.raceRelease(&in.race.atomic)
			return Value{}, true
		},
		"CidKey": func(in *Interp, fr *Frame, a []Value) (Value, bool) {
			at, ok := cidAtom(a[0])
			if !ok {
				return mkStr("?"), true
			}
			return mkStr(at.Key), true
		},
		"Gate": func(in *Interp, fr *Frame, a []Value) (Value, bool) {
			in.cur.gateKey = concStrArg(a[0])
			return Value{}, true
		},
		"GateSeq": func(in *Interp, fr *Frame, a []Value) (Value, bool) {
			in.gateOrder = append(in.gateOrder, concStrArg(a[0]))
			in.yieldNow = true
			return Value{}, true
		},
		"OrderOK": func(in *Interp, fr *Frame, a []Value) (Value, bool) {
			return mkBool(true), true // the engine keeps the order symbolic; natively keys are re-drawn until it matches the model
		},
		"Yield": func(in *Interp, fr *Frame, a []Value) (Value, bool) {
			in.yieldNow = true
			return Value{}, true
		},
	}
	for k, f := range vx {
		intrinsics[vxPkg+k] = f
	}
}

func (in *Interp) symBytes(name string, n int) Value {
	out := make([]Value, n)
	ts := make([]*smt.Term, n)
	for i := range out {
		ts[i] = in.Ctx.Var(fmt.Sprintf("%s[%d]", name, i), 8)
		out[i] = mkSymInt(ts[i])
	}
	in.recordBytes(name, ts)
	return Value{K: KSlice, R: &SliceV{S: out}}
}
