package interp

import (
	"fmt"
	"go/types"
	"strconv"
	"strings"

	"gosx/smt"

	"golang.org/x/tools/go/ssa"
)

type ixFn = func(in *Interp, fr *Frame, args []Value) (Value, bool)

var intrinsics = map[string]ixFn{}

func tuple(vs ...Value) Value { return Value{K: KTuple, R: vs} }

var nilErr = Value{K: KIface}

func (in *Interp) newErr(msg string, inner Value) Value {
	return Value{K: KIface, R: &IfaceV{T: errType, V: Value{K: KOpaque, R: &OpaqueErr{Msg: msg, Inner: inner}}}}
}

func (in *Interp) freshName(base string) string {
	n := in.nameCnt[base]
	in.nameCnt[base] = n + 1
	return fmt.Sprintf("%s#%d", base, n)
}

func (in *Interp) newAtom(fam, key string) *Atom {
	k := fam + "/" + key
	if a, ok := in.atomTab[k]; ok {
		return a
	}
	in.atoms++
	a := &Atom{ID: in.atoms, Fam: fam, Key: key, ranks: map[string]*smt.Term{}}
	in.atomTab[k] = a
	in.atomList = append(in.atomList, a)
	return a
}

func zeroCid() Value { return Value{K: KStruct, R: []Value{mkStr("")}} }

func (in *Interp) cidFromText(s Value) Value {
	if at, tag, ok := singleAtom(s); ok && at.Fam == "cid" && (tag == "str" || tag == "b58") {
		return tuple(cidOf(at), nilErr)
	}
	if t, ok := opaqueOfStr(s); ok && (t.Ctor == "cidstr" || t.Ctor == "cidb58") {
		return tuple(Value{K: KStruct, R: []Value{opqStr(ot("cidof", t.Args[0]))}}, nilErr)
	}
	return tuple(zeroCid(), in.newErr("invalid cid", Value{}))
}

func (in *Interp) cidFromBytes(b Value) Value {
	if t, ok := opaqueOfBytes(b); ok && t.Ctor == "cidbytes" {
		return tuple(Value{K: KStruct, R: []Value{opqStr(ot("cidof", t.Args[0]))}}, nilErr)
	}
	if b.R != nil {
		cells := b.R.(*SliceV).S
		if len(cells) == 1 && cells[0].K == KOpaque {
			if ob, ok := cells[0].R.(*OpaqueBytes); ok && ob.A != nil && ob.A.Fam == "cid" && ob.Tag == "bin" {
				return tuple(cidOf(ob.A), nilErr)
			}
		}
	}
	return tuple(zeroCid(), in.newErr("invalid cid bytes", Value{}))
}

// concrete inputs that have the outer shape of a real identifier go to the real parser; everything else is
// "not a CID" in the model
func plausibleCidBytes(b []byte) bool {
	if len(b) == 34 && b[0] == 0x12 && b[1] == 0x20 {
		return true // CIDv0: a bare sha2-256 multihash
	}
	return len(b) >= 36 && b[0] == 0x01 && b[2] == 0x12 && b[3] == 0x20 && len(b) == 36 // CIDv1, one-byte codec, sha2-256
}

func plausibleCidText(s string) bool {
	if len(s) == 46 && strings.HasPrefix(s, "Qm") {
		return true
	}
	return len(s) >= 50 && (s[0] == 'b' || s[0] == 'z')
}

func concByteCells(v Value) ([]byte, bool) {
	if v.K != KSlice || v.R == nil {
		return nil, false
	}
	cells := v.R.(*SliceV).S
	out := make([]byte, len(cells))
	for i, c := range cells {
		if c.K != KInt || c.R != nil {
			return nil, false
		}
		out[i] = byte(c.N)
	}
	return out, true
}

func cidOf(a *Atom) Value { return Value{K: KStruct, R: []Value{atomStr(a, "bin")}} }

func cidAtom(v Value) (*Atom, bool) {
	fs := v.R.([]Value)
	a, _, ok := singleAtom(fs[0])
	return a, ok
}

func concStrArg(v Value) string {
	s, ok := v.ConcStr()
	if !ok {
		unsupported("symbolic string where concrete expected")
	}
	return s
}

type mutexSt struct {
	writer  bool
	readers int
	pending *G // RWMutex: a writer has announced itself and waits for the readers to leave; new readers block (Go's writer preference)
}
type wgSt struct{ n int64 }

func (in *Interp) mutexOf(p Value) *mutexSt {
	k := p.R.(*Value)
	if s, ok := in.side[k]; ok {
		return s.(*mutexSt)
	}
	s := &mutexSt{}
	in.side[k] = s
	return s
}

// bytesCompare: lexicographic comparison; opaque byte strings of concrete identity are ordered by a symbolic
// rank (an arbitrary but fixed strict total order, as for content identifiers); against the empty string
// they are greater.
func (in *Interp) bytesCompare(x, y Value) Value {
	c := in.Ctx
	tx, ox := opaqueOfBytes(x)
	ty, oy := opaqueOfBytes(y)
	if !ox && !oy {
		bx, ok1 := in.byteTerms(x)
		by, ok2 := in.byteTerms(y)
		if !ok1 || !ok2 {
			unsupported("bytes.Compare on mixed bytes")
		}
		return mkSymInt(in.lexCompare(bx, by))
	}
	if ox && oy {
		kx, okx := otermKey(tx)
		ky, oky := otermKey(ty)
		if !okx || !oky {
			unsupported("bytes.Compare on opaque bytes of symbolic identity")
		}
		if kx == ky {
			return mkInt(0, 64)
		}
		ax, ay := in.newAtom("bytes", kx), in.newAtom("bytes", ky)
		lt := c.Cmp(smt.OpULt, ax.RankOf(in, "bin"), ay.RankOf(in, "bin"))
		return mkSymInt(c.Ite(lt, c.BV(^uint64(0), 64), c.BV(1, 64)))
	}
	// opaque vs plain bytes: every opaque value (a real key, digest, ...) is ordered after every plain byte
	// string (a fixed, consistent choice; only its consistency matters to the callers, which sort by it)
	if oy {
		return mkInt(^uint64(0), 64)
	}
	return mkInt(1, 64)
}

// errIs: errors.Is over opaque error chains (identity of the error value, then the wrapped operands).
func (in *Interp) errIs(err, target Value, depth int) bool {
	if err.R == nil || target.R == nil {
		return err.R == nil && target.R == nil
	}
	if depth > 16 {
		return false
	}
	ei, ti := err.R.(*IfaceV), target.R.(*IfaceV)
	if ei.T == ti.T || types.Identical(ei.T, ti.T) {
		if ei.T == errType {
			if ei.V.R == ti.V.R {
				return true
			}
		} else if eq := in.valEq(in.cur, ei.V, ti.V); eq.R == nil && eq.N == 1 {
			return true
		}
	}
	if oe, ok := ei.V.R.(*OpaqueErr); ok {
		for _, w := range oe.Wrapped {
			if in.errIs(w, target, depth+1) {
				return true
			}
		}
		return false
	}
	if ei.T == errType || ei.T == ctxType || ei.T == keyType || ei.T == hashType {
		return false
	}
	// real error types: their own Is / Unwrap methods, as errors.Is does
	ms := in.Prog.MethodSets.MethodSet(ei.T)
	call := func(name string) (Value, *types.Signature, bool) {
		sel := ms.Lookup(nil, name)
		if sel == nil {
			return Value{}, nil, false
		}
		fn := in.Prog.MethodValue(sel)
		if fn == nil {
			return Value{}, nil, false
		}
		return Value{K: KFunc, R: &Closure{Fn: fn}}, sel.Type().(*types.Signature), true
	}
	if f, sig, ok := call("Is"); ok && sig.Params().Len() == 1 && sig.Results().Len() == 1 {
		if r := in.CallSync(f, []Value{ei.V, target}); r.K == KBool && r.R == nil && r.N == 1 {
			return true
		}
	}
	if f, sig, ok := call("Unwrap"); ok && sig.Params().Len() == 0 && sig.Results().Len() == 1 {
		r := in.CallSync(f, []Value{ei.V})
		if _, isSlice := sig.Results().At(0).Type().Underlying().(*types.Slice); isSlice {
			if r.R != nil {
				for _, w := range r.R.(*SliceV).S {
					if in.errIs(w, target, depth+1) {
						return true
					}
				}
			}
			return false
		}
		return in.errIs(r, target, depth+1)
	}
	return false
}

// gatePassed records the order in which goroutines that went through vx.Gate enter their next critical section.
func (in *Interp) gatePassed() {
	if g := in.cur; g != nil && g.gateKey != "" {
		in.gateOrder = append(in.gateOrder, g.gateKey)
		g.gateKey = ""
	}
}

func (in *Interp) byteTerms(v Value) ([]*smt.Term, bool) {
	if v.R == nil {
		return nil, true
	}
	s := v.R.(*SliceV).S
	out := make([]*smt.Term, len(s))
	for i, b := range s {
		if b.K != KInt {
			return nil, false
		}
		out[i] = b.Term(in.Ctx)
	}
	return out, true
}

func init() {
	base := map[string]ixFn{
		// ---- sync (seq scheduler) ----
		"(*sync.RWMutex).Lock": func(in *Interp, fr *Frame, a []Value) (Value, bool) {
			m := in.mutexOf(a[0])
			if m.writer || (m.pending != nil && m.pending != in.cur) {
				return Value{}, false
			}
			if m.readers > 0 {
				m.pending = in.cur // announce: from now on RLock blocks until this writer is done
				return Value{}, false
			}
			m.pending = nil
			m.writer = true
			in.gatePassed()
			in.raceAcquire(m)
			in.raceAcquire(&m.readers)
			return Value{}, true
		},
		"(*sync.RWMutex).Unlock": func(in *Interp, fr *Frame, a []Value) (Value, bool) {
			m := in.mutexOf(a[0])
			if !m.writer {
				in.goPanic(in.cur, "sync: Unlock of unlocked RWMutex")
				return Value{}, true
			}
			m.writer = false
			in.raceRelease(m)
			return Value{}, true
		},
		"(*sync.RWMutex).RLock": func(in *Interp, fr *Frame, a []Value) (Value, bool) {
			m := in.mutexOf(a[0])
			if m.writer || m.pending != nil {
				return Value{}, false
			}
			m.readers++
			in.raceAcquire(m)
			return Value{}, true
		},
		"(*sync.RWMutex).RUnlock": func(in *Interp, fr *Frame, a []Value) (Value, bool) {
			m := in.mutexOf(a[0])
			if m.readers == 0 {
				in.goPanic(in.cur, "sync: RUnlock of unlocked RWMutex")
				return Value{}, true
			}
			m.readers--
			in.raceRelease(&m.readers)
			return Value{}, true
		},
		"(*sync.Mutex).Lock": func(in *Interp, fr *Frame, a []Value) (Value, bool) {
			m := in.mutexOf(a[0])
			if m.writer {
				return Value{}, false
			}
			m.writer = true
			in.gatePassed()
			in.raceAcquire(m)
			return Value{}, true
		},
		"(*sync.Mutex).Unlock": func(in *Interp, fr *Frame, a []Value) (Value, bool) {
			m := in.mutexOf(a[0])
			m.writer = false
			in.raceRelease(m)
			return Value{}, true
		},
		"(*sync.WaitGroup).Add": func(in *Interp, fr *Frame, a []Value) (Value, bool) {
			k := a[0].R.(*Value)
			s, ok := in.side[k].(*wgSt)
			if !ok {
				s = &wgSt{}
				in.side[k] = s
			}
			s.n += sextW(a[1].N, 64)
			return Value{}, true
		},
		"(*sync.WaitGroup).Done": func(in *Interp, fr *Frame, a []Value) (Value, bool) {
			w := in.side[a[0].R.(*Value)].(*wgSt)
			w.n--
			in.raceRelease(w)
			return Value{}, true
		},
		"(*sync.WaitGroup).Wait": func(in *Interp, fr *Frame, a []Value) (Value, bool) {
			s, ok := in.side[a[0].R.(*Value)].(*wgSt)
			if ok && s.n > 0 {
				return Value{}, false
			}
			if ok {
				in.raceAcquire(s)
			}
			return Value{}, true
		},
		// the base58 text of the multihash of an abstract identifier: an injective constructor, like the other texts
		"(github.com/multiformats/go-multihash.Multihash).B58String": func(in *Interp, fr *Frame, a []Value) (Value, bool) {
			if t, ok := opaqueOfBytes(a[0]); ok {
				return opqStr(ot("mhb58", t)), true
			}
			return declined()
		},
		// ---- cid ----
		"(github.com/ipfs/go-cid.Cid).String": func(in *Interp, fr *Frame, a []Value) (Value, bool) {
			at, ok := cidAtom(a[0])
			if !ok {
				if s, _ := a[0].R.([]Value)[0].ConcStr(); s == "" {
					return mkStr("b"), true // cid.Undef.String() is the bare multibase prefix
				}
				if t, ok := opaqueOfStr(a[0].R.([]Value)[0]); ok && t.Ctor == "cidof" {
					return opqStr(ot("cidstr", t.Args[0])), true // identifier of a document with symbolic fields
				}
				if _, conc := a[0].R.([]Value)[0].ConcStr(); conc {
					return declined() // a concrete identifier built by the harness: run the real go-cid code
				}
				unsupported("String of non-atom cid")
			}
			return atomStr(at, "str"), true
		},
		// the multihash of an identifier handed out by the store: an opaque byte string of its own (distinct store
		// identifiers are assumed to have distinct multihashes; identifiers sharing one are built concretely by
		// the harness and run through the real go-cid code)
		"(github.com/ipfs/go-cid.Cid).Hash": func(in *Interp, fr *Frame, a []Value) (Value, bool) {
			at, ok := cidAtom(a[0])
			if !ok {
				return declined()
			}
			return Value{K: KSlice, R: &SliceV{S: []Value{{K: KOpaque, R: &OpaqueBytes{A: at, Tag: "mh"}}}}}, true
		},
		// identifiers handed out by the store are CIDv1 / dag-cbor / sha2-256 (as the native identifier pool is)
		"(github.com/ipfs/go-cid.Cid).Version": func(in *Interp, fr *Frame, a []Value) (Value, bool) {
			if _, ok := cidAtom(a[0]); !ok {
				return declined()
			}
			return mkInt(1, 64), true
		},
		"(github.com/ipfs/go-cid.Cid).Type": func(in *Interp, fr *Frame, a []Value) (Value, bool) {
			if _, ok := cidAtom(a[0]); !ok {
				return declined()
			}
			return mkInt(0x71, 64), true
		},
		"(github.com/ipfs/go-cid.Cid).ByteLen": func(in *Interp, fr *Frame, a []Value) (Value, bool) {
			if _, ok := cidAtom(a[0]); !ok {
				return declined()
			}
			return mkInt(36, 64), true
		},
		"(github.com/ipfs/go-cid.Cid).Prefix": func(in *Interp, fr *Frame, a []Value) (Value, bool) {
			if _, ok := cidAtom(a[0]); !ok {
				return declined()
			}
			// Prefix{Version, Codec, MhType uint64; MhLength int}
			return Value{K: KStruct, R: []Value{mkInt(1, 64), mkInt(0x71, 64), mkInt(0x12, 64), mkInt(32, 64)}}, true
		},
		"(github.com/ipfs/go-cid.Cid).KeyString": func(in *Interp, fr *Frame, a []Value) (Value, bool) {
			return a[0].R.([]Value)[0], true
		},
		"(github.com/ipfs/go-cid.Cid).Defined": func(in *Interp, fr *Frame, a []Value) (Value, bool) {
			s, ok := a[0].R.([]Value)[0].ConcStr()
			return mkBool(!(ok && s == "")), true
		},
		"(github.com/ipfs/go-cid.Cid).Equals": func(in *Interp, fr *Frame, a []Value) (Value, bool) {
			return mkSymBool(in.strEqTerm(a[0].R.([]Value)[0], a[1].R.([]Value)[0])), true
		},
		"(github.com/ipfs/go-cid.Cid).Encode": func(in *Interp, fr *Frame, a []Value) (Value, bool) {
			at, ok := cidAtom(a[0])
			if !ok {
				if s, _ := a[0].R.([]Value)[0].ConcStr(); s == "" {
					return mkStr("z"), true // cid.Undef: the bare multibase prefix of an empty byte string
				}
				if t, ok := opaqueOfStr(a[0].R.([]Value)[0]); ok && t.Ctor == "cidof" {
					return opqStr(ot("cidb58", t.Args[0])), true
				}
				if _, conc := a[0].R.([]Value)[0].ConcStr(); conc {
					return declined()
				}
				unsupported("Encode of non-atom cid")
			}
			return atomStr(at, "b58"), true
		},
		"(github.com/ipfs/go-cid.Cid).Bytes": func(in *Interp, fr *Frame, a []Value) (Value, bool) {
			at, ok := cidAtom(a[0])
			if !ok {
				if t, ok := opaqueOfStr(a[0].R.([]Value)[0]); ok && t.Ctor == "cidof" {
					return opqBytes(ot("cidbytes", t.Args[0])), true
				}
				if cs, conc := a[0].R.([]Value)[0].ConcStr(); conc && cs != "" {
					return declined() // a concrete identifier built by the harness
				}
				return Value{K: KSlice, R: &SliceV{S: []Value{}}}, true // cid.Undef has no bytes
			}
			return Value{K: KSlice, R: &SliceV{S: []Value{{K: KOpaque, R: &OpaqueBytes{A: at, Tag: "bin"}}}}}, true
		},
		// Decode/Parse/Cast are the inverses of String/Encode/Bytes on identifiers handed out by the store
		// (atoms); every other text or byte string is "not a CID" and yields an error (go-cid's own parsing of
		// malformed input is outside the claim).
		"github.com/ipfs/go-cid.Decode": func(in *Interp, fr *Frame, a []Value) (Value, bool) {
			if cs, ok := a[0].ConcStr(); ok && plausibleCidText(cs) {
				return declined() // a real identifier built by the harness: the real go-cid parser
			}
			return in.cidFromText(a[0]), true
		},
		"github.com/ipfs/go-cid.Cast": func(in *Interp, fr *Frame, a []Value) (Value, bool) {
			if bs, ok := concByteCells(a[0]); ok && plausibleCidBytes(bs) {
				return declined()
			}
			return in.cidFromBytes(a[0]), true
		},
		"github.com/ipfs/go-cid.Parse": func(in *Interp, fr *Frame, a []Value) (Value, bool) {
			if a[0].R == nil {
				return tuple(zeroCid(), in.newErr("can't parse nil as Cid", Value{})), true
			}
			iv := a[0].R.(*IfaceV)
			switch iv.V.K {
			case KStr:
				if cs, ok := iv.V.ConcStr(); ok && plausibleCidText(cs) {
					return declined()
				}
				return in.cidFromText(iv.V), true
			case KSlice:
				if bs, ok := concByteCells(iv.V); ok && plausibleCidBytes(bs) {
					return declined()
				}
				return in.cidFromBytes(iv.V), true
			case KStruct:
				return tuple(iv.V, nilErr), true
			}
			return tuple(zeroCid(), in.newErr("can't parse as Cid", Value{})), true
		},
		"github.com/multiformats/go-multibase.NewEncoder": func(in *Interp, fr *Frame, a []Value) (Value, bool) {
			return tuple(Value{K: KStruct, R: []Value{a[0], {K: KIface}}}, nilErr), true
		},
		// ---- compare ----
		"bytes.Compare": func(in *Interp, fr *Frame, a []Value) (Value, bool) {
			return in.bytesCompare(a[0], a[1]), true
		},
		"bytes.Equal": func(in *Interp, fr *Frame, a []Value) (Value, bool) {
			return mkSymBool(in.bytesEqTerm(a[0], a[1])), true
		},
		"strings.Compare": func(in *Interp, fr *Frame, a []Value) (Value, bool) {
			return in.strCompare(a[0], a[1]), true
		},
		// ---- fmt / errors ----
		"fmt.Errorf": func(in *Interp, fr *Frame, a []Value) (Value, bool) {
			// an opaque non-nil error that remembers the errors among its operands (the %w chain)
			format := concStrArg(a[0])
			e := &OpaqueErr{Msg: "fmt.Errorf:" + format}
			if len(a) > 1 && a[1].R != nil {
				// only the operands of %w verbs are wrapped
				var verbs []byte
				for i := 0; i < len(format); i++ {
					if format[i] != '%' {
						continue
					}
					i++
					for i < len(format) && strings.IndexByte("+-# 0123456789.", format[i]) >= 0 {
						i++
					}
					if i < len(format) && format[i] != '%' {
						verbs = append(verbs, format[i])
					}
				}
				for k, arg := range a[1].R.(*SliceV).S {
					if arg.K == KIface && arg.R != nil && k < len(verbs) && verbs[k] == 'w' {
						e.Wrapped = append(e.Wrapped, arg)
					}
				}
			}
			return Value{K: KIface, R: &IfaceV{T: errType, V: Value{K: KOpaque, R: e}}}, true
		},
		"errors.Is": func(in *Interp, fr *Frame, a []Value) (Value, bool) {
			return mkBool(in.errIs(a[0], a[1], 0)), true
		},
		"errors.Unwrap": func(in *Interp, fr *Frame, a []Value) (Value, bool) {
			if a[0].R != nil {
				if oe, ok := a[0].R.(*IfaceV).V.R.(*OpaqueErr); ok && len(oe.Wrapped) > 0 {
					return oe.Wrapped[len(oe.Wrapped)-1], true
				}
			}
			return nilErr, true
		},
		"fmt.Printf":  func(in *Interp, fr *Frame, a []Value) (Value, bool) { return tuple(mkInt(0, 64), nilErr), true },
		// ---- sort via reflectlite ----
		"internal/reflectlite.ValueOf": func(in *Interp, fr *Frame, a []Value) (Value, bool) {
			return Value{K: KOpaque, R: a[0].R.(*IfaceV).V}, true
		},
		"(internal/reflectlite.Value).Len": func(in *Interp, fr *Frame, a []Value) (Value, bool) {
			v := a[0].R.(Value)
			if v.R == nil {
				return mkInt(0, 64), true
			}
			return mkInt(uint64(len(v.R.(*SliceV).S)), 64), true
		},
		"internal/reflectlite.Swapper": func(in *Interp, fr *Frame, a []Value) (Value, bool) {
			v := a[0].R.(*IfaceV).V
			return Value{K: KFunc, R: &Intrinsic{Name: "swapper", F: func(in *Interp, fr *Frame, b []Value) (Value, bool) {
				s := v.R.(*SliceV).S
				i, j := b[0].N, b[1].N
				s[i], s[j] = s[j], s[i]
				return Value{}, true
			}}}, true
		},
		// ---- misc ----
		"strconv.Itoa": func(in *Interp, fr *Frame, a []Value) (Value, bool) {
			if a[0].R != nil {
				unsupported("Itoa of symbolic")
			}
			return mkStr(strconv.Itoa(int(sextW(a[0].N, 64)))), true
		},
		"strings.Join": func(in *Interp, fr *Frame, a []Value) (Value, bool) {
			out := mkStr("")
			if a[0].R != nil {
				for i, p := range a[0].R.(*SliceV).S {
					if i > 0 {
						out = concatStr(out, a[1])
					}
					out = concatStr(out, p) // ropes: symbolic / atom segments are kept
				}
			}
			return out, true
		},
	}
	for k, f := range base {
		intrinsics[k] = f
	}
}

func (in *Interp) lookupIntrinsic(fn *ssa.Function) *Intrinsic {
	if ix, ok := in.ixCache[fn]; ok {
		if ix != nil {
			in.StubsHit[ix.Name]++
		}
		return ix
	}
	ix := in.lookupIntrinsic0(fn)
	in.ixCache[fn] = ix
	if ix != nil {
		in.StubsHit[ix.Name]++
	}
	return ix
}

func (in *Interp) lookupIntrinsic0(fn *ssa.Function) *Intrinsic {
	name := fn.String()
	if f, ok := intrinsics[name]; ok {
		return &Intrinsic{Name: name, F: f}
	}
	if ai := in.atomicIntrinsic(fn); ai != nil {
		return ai
	}
	if fn.Pkg != nil && !in.isModulePkg(fn.Pkg) && (fn.Name() == "init" || strings.HasPrefix(fn.Name(), "init#")) {
		return &Intrinsic{Name: "init(external)", F: func(in *Interp, fr *Frame, a []Value) (Value, bool) { return Value{}, true }}
	}
	if fn.Pkg != nil {
		fn.Pkg.Build() // sync.Once inside; also waits for a build in progress on another worker
	} else if o := fn.Origin(); o != nil && o.Pkg != nil {
		o.Pkg.Build()
	} else if p := fn.Parent(); p != nil {
		for p.Parent() != nil {
			p = p.Parent()
		}
		if p.Pkg != nil {
			p.Pkg.Build()
		}
	}
	return nil
}

var _ = types.Typ
