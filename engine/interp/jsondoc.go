package interp

import (
	"go/token"
	"go/types"
	"math"
	"reflect"
	"sort"
	"strings"
	"unicode/utf8"

	"gosx/smt"
)

// ---- encoding/json document model ------------------------------------------------------------------
//
// json.Marshal(v) is modelled by its documented contract: the result is the canonical rendering of a
// document tree (objects with sorted keys for maps / declaration order for structs, lists, strings,
// numbers, null, booleans). Struct tags (name, omitempty, "-") are honoured. Strings are "coerced to
// valid UTF-8, replacing invalid bytes with the Unicode replacement rune": a string leaf is the sequence
// of runes after that coercion, computed on symbolic bytes by forking on the UTF-8 class of each byte.
// The byte string returned is opaque (json(tree)); two are equal iff the trees are equal (JSON text is an
// injective rendering of the tree).

func (in *Interp) jsonMarshal(v Value) *OTerm {
	iv, ok := v.R.(*IfaceV)
	if v.R == nil || !ok {
		return ot("json", ot("null"))
	}
	return ot("json", in.jsonEncode(iv.T, iv.V))
}

func jsonTag(f *types.Var, tag string) (name string, omitEmpty, skip bool) {
	name = f.Name()
	t := reflect.StructTag(tag).Get("json")
	if t == "-" {
		return "", false, true
	}
	parts := strings.Split(t, ",")
	if parts[0] != "" {
		name = parts[0]
	}
	for _, p := range parts[1:] {
		if p == "omitempty" {
			omitEmpty = true
		}
	}
	return
}

func (in *Interp) isEmptyValue(v Value) bool {
	switch v.K {
	case KInt, KBool:
		return v.R == nil && v.N == 0
	case KStr:
		s, ok := v.ConcStr()
		return ok && s == ""
	case KSlice:
		return v.R == nil || len(v.R.(*SliceV).S) == 0
	case KMap:
		return v.R == nil || v.R.(*MapV).n == 0
	case KPtr, KIface, KFunc, KChan:
		return v.R == nil
	}
	return false
}

func (in *Interp) jsonEncode(t types.Type, v Value) *OTerm {
	// types with their own MarshalJSON
	if n, ok := types.Unalias(t).(*types.Named); ok && n.Obj().Pkg() != nil {
		if n.Obj().Pkg().Path() == "github.com/ipfs/go-cid" && n.Obj().Name() == "Cid" {
			// cid.Cid.MarshalJSON: {"/": "<string form>"} ; undefined cid: null
			fs := v.R.([]Value)
			if s, ok := fs[0].ConcStr(); ok && s == "" {
				return ot("null")
			}
			at, _ := cidAtom(v)
			return ot("obj", "/", ot("str", ot("atom", at, "str")))
		}
	}
	switch u := t.Underlying().(type) {
	case *types.Basic:
		switch {
		case u.Info()&types.IsFloat != 0:
			if f, ok := v.R.(*floatV); ok {
				return ot("num", true, f.v) // an integral float64: the rounded integer
			}
			unsupported("json.Marshal of a non-integral float")
		case u.Info()&types.IsString != 0:
			return ot("str", in.coerceUTF8(v))
		case u.Info()&types.IsBoolean != 0:
			return ot("bool", v)
		case u.Info()&types.IsInteger != 0:
			_, signed, _ := intInfo(u)
			return ot("num", signed, v)
		}
	case *types.Pointer:
		if v.R == nil {
			return ot("null")
		}
		return in.jsonEncode(u.Elem(), *(v.R.(*Value)))
	case *types.Interface:
		if v.R == nil {
			return ot("null")
		}
		iv := v.R.(*IfaceV)
		return in.jsonEncode(iv.T, iv.V)
	case *types.Slice:
		if v.R == nil {
			return ot("null")
		}
		if w, _, ok := intInfo(u.Elem()); ok && w == 8 {
			// []byte encodes as a base64 string
			return ot("str", ot("b64", in.msgArg(v)))
		}
		args := []interface{}{}
		for _, e := range v.R.(*SliceV).S {
			args = append(args, in.jsonEncode(u.Elem(), e))
		}
		return &OTerm{Ctor: "list", Args: args}
	case *types.Array:
		args := []interface{}{}
		for _, e := range v.R.([]Value) {
			args = append(args, in.jsonEncode(u.Elem(), e))
		}
		return &OTerm{Ctor: "list", Args: args}
	case *types.Map:
		if v.R == nil {
			return ot("null")
		}
		m := v.R.(*MapV)
		type kv struct {
			k string
			v Value
		}
		var kvs []kv
		for i, k := range m.Keys {
			if !m.Live[i] {
				continue
			}
			ks, ok := k.ConcStr()
			if !ok {
				unsupported("json: map with non-concrete key")
			}
			kvs = append(kvs, kv{ks, m.Vals[i]})
		}
		sort.Slice(kvs, func(i, j int) bool { return kvs[i].k < kvs[j].k })
		args := []interface{}{}
		for _, e := range kvs {
			args = append(args, e.k, in.jsonEncode(u.Elem(), e.v))
		}
		return &OTerm{Ctor: "obj", Args: args}
	case *types.Struct:
		fs := v.R.([]Value)
		args := []interface{}{}
		for i := 0; i < u.NumFields(); i++ {
			f := u.Field(i)
			if !f.Exported() {
				continue
			}
			name, omit, skip := jsonTag(f, u.Tag(i))
			if skip || (omit && in.isEmptyValue(fs[i])) {
				continue
			}
			args = append(args, name, in.jsonEncode(f.Type(), fs[i]))
		}
		return &OTerm{Ctor: "obj", Args: args}
	}
	unsupported("json.Marshal of %s", t)
	return nil
}

// coerceUTF8 returns the string as the list of its runes after encoding/json's coercion to valid UTF-8
// (each invalid byte becomes U+FFFD). Opaque segments stay opaque units. Symbolic bytes fork per UTF-8 class.
func (in *Interp) coerceUTF8(v Value) *OTerm {
	r := ropeOf(v)
	args := []interface{}{}
	rune32 := func(x uint64) Value { return mkInt(x, 32) }
	for _, sg := range r.Segs {
		switch {
		case sg.Opq != nil && sg.Opq.Ctor == "jsonstr":
			args = append(args, sg.Opq.Args[0].(*OTerm).Args...) // a string decoded from JSON: the same runes again
		case sg.Opq != nil:
			args = append(args, sg.Opq)
		case sg.Atom != nil:
			args = append(args, ot("atom", sg.Atom, sg.Tag))
		case sg.Sym == nil:
			s := sg.S
			for len(s) > 0 {
				rn, n := utf8.DecodeRuneInString(s)
				args = append(args, rune32(uint64(rn)))
				s = s[n:]
			}
		default:
			bs := sg.Sym
			for i := 0; i < len(bs); {
				r, w, valid := in.decodeRuneSym(bs, i)
				if !valid {
					in.Cover["json-invalid-utf8-coerced"] = true
				}
				args = append(args, r)
				i += w
			}
		}
	}
	return &OTerm{Ctor: "runes", Args: args}
}

// decodeRuneSym decodes one UTF-8 sequence starting at bs[i] (symbolic bytes), forking on its shape as
// utf8.DecodeRune classifies it: the rune (32-bit), its width in bytes, and whether it was well-formed (an
// ill-formed byte decodes to U+FFFD of width 1).
func (in *Interp) decodeRuneSym(bs []*smt.Term, i int) (Value, int, bool) {
	c := in.Ctx
	between := func(b *smt.Term, lo, hi uint64) *smt.Term {
		return c.And(c.Cmp(smt.OpULe, c.BV(lo, 8), b), c.Cmp(smt.OpULe, b, c.BV(hi, 8)))
	}
	bits := func(b *smt.Term, mask uint64) *smt.Term {
		return c.ZExt(c.Bin(smt.OpAnd, b, c.BV(mask, 8)), 32)
	}
	shl := func(t *smt.Term, n uint64) *smt.Term { return c.Bin(smt.OpShl, t, c.BV(n, 32)) }
	or := func(a, b *smt.Term) *smt.Term { return c.Bin(smt.OpOr, a, b) }
	b0 := bs[i]
	if in.Branch(c.Cmp(smt.OpULt, b0, c.BV(0x80, 8)), "utf8 ascii") {
		return mkSymInt(c.ZExt(b0, 32)), 1, true
	}
	// two-byte sequence C2..DF 80..BF
	if i+1 < len(bs) && in.Branch(c.And(between(b0, 0xC2, 0xDF), between(bs[i+1], 0x80, 0xBF)), "utf8 2-byte") {
		return mkSymInt(or(shl(bits(b0, 0x1F), 6), bits(bs[i+1], 0x3F))), 2, true
	}
	// three-byte sequences (E0 A0..BF | E1..EC,EE,EF 80..BF | ED 80..9F) 80..BF
	if i+2 < len(bs) {
		b1, b2 := bs[i+1], bs[i+2]
		lead := c.Or(c.And(c.Cmp(smt.OpEq, b0, c.BV(0xE0, 8)), between(b1, 0xA0, 0xBF)),
			c.Or(c.And(c.Or(between(b0, 0xE1, 0xEC), between(b0, 0xEE, 0xEF)), between(b1, 0x80, 0xBF)),
				c.And(c.Cmp(smt.OpEq, b0, c.BV(0xED, 8)), between(b1, 0x80, 0x9F))))
		if in.Branch(c.And(lead, between(b2, 0x80, 0xBF)), "utf8 3-byte") {
			return mkSymInt(or(or(shl(bits(b0, 0x0F), 12), shl(bits(b1, 0x3F), 6)), bits(b2, 0x3F))), 3, true
		}
	}
	// four-byte sequences
	if i+3 < len(bs) {
		b1, b2, b3 := bs[i+1], bs[i+2], bs[i+3]
		lead := c.Or(c.And(c.Cmp(smt.OpEq, b0, c.BV(0xF0, 8)), between(b1, 0x90, 0xBF)),
			c.Or(c.And(between(b0, 0xF1, 0xF3), between(b1, 0x80, 0xBF)),
				c.And(c.Cmp(smt.OpEq, b0, c.BV(0xF4, 8)), between(b1, 0x80, 0x8F))))
		if in.Branch(c.And(lead, c.And(between(b2, 0x80, 0xBF), between(b3, 0x80, 0xBF))), "utf8 4-byte") {
			return mkSymInt(or(or(shl(bits(b0, 0x07), 18), shl(bits(b1, 0x3F), 12)), or(shl(bits(b2, 0x3F), 6), bits(b3, 0x3F)))), 4, true
		}
	}
	return mkInt(0xFFFD, 32), 1, false // ill-formed byte
}

func init() {
	intrinsics["encoding/json.Marshal"] = func(in *Interp, fr *Frame, a []Value) (Value, bool) {
		return tuple(opqBytes(in.jsonMarshal(a[0])), nilErr), true
	}
}

// ---- json.Unmarshal: inverse of the document model -------------------------------------------------
//
// Into interface{} ("generic" decoding): objects become map[string]interface{}, lists []interface{},
// strings string, booleans bool, null nil and - as encoding/json documents - every number becomes a
// float64. Floats are not supported in general by this engine; the one thing modelled is an INTEGRAL
// float64 obtained from an integer: its value is the integer rounded to 53 bits of mantissa (round half
// to even), as a bit-vector term. Re-marshalling such a float yields a number leaf with the rounded value.
// Into structs: by json tags (missing -> zero value, unknown keys ignored, null -> nil).

type floatV struct{ v Value } // an integral float64: v is the (already rounded) value as a 64-bit integer

var (
	tIface    = types.NewInterfaceType(nil, nil)
	tMapSI    = types.NewMap(types.Typ[types.String], tIface)
	tSliceI   = types.NewSlice(tIface)
	tFloat64  = types.Typ[types.Float64]
	tString   = types.Typ[types.String]
	tBool     = types.Typ[types.Bool]
)

// round53 rounds a 64-bit integer to the nearest value representable in a float64 (ties to even).
func (in *Interp) round53(v Value, signed bool) Value {
	if v.R == nil {
		var f float64
		if signed {
			f = float64(sextW(v.N, 64))
			if f >= 9.223372036854775807e18 {
				return mkInt(uint64(1)<<63-1, 64) // saturate (cannot be represented back; outside the uses here)
			}
			return mkInt(uint64(int64(f)), 64)
		}
		f = float64(v.N)
		if f >= 1.8446744073709552e19 {
			return mkInt(^uint64(0), 64)
		}
		return mkInt(uint64(f), 64)
	}
	c := in.Ctx
	x := v.R.(*smt.Term)
	zero := c.BV(0, 64)
	neg := c.F
	a := x
	if signed {
		neg = c.Cmp(smt.OpSLt, x, zero)
		a = c.Ite(neg, c.Un(smt.OpNeg, x), x)
	}
	res := a
	for s := uint64(1); s <= 11; s++ {
		lo := c.BV(uint64(1)<<(52+s), 64)
		q := c.Bin(smt.OpLShr, a, c.BV(s, 64))
		rem := c.Bin(smt.OpAnd, a, c.BV((uint64(1)<<s)-1, 64))
		half := c.BV(uint64(1)<<(s-1), 64)
		odd := c.Cmp(smt.OpEq, c.Bin(smt.OpAnd, q, c.BV(1, 64)), c.BV(1, 64))
		up := c.Or(c.Cmp(smt.OpULt, half, rem), c.And(c.Cmp(smt.OpEq, rem, half), odd))
		rq := c.Ite(up, c.Bin(smt.OpAdd, q, c.BV(1, 64)), q)
		rounded := c.Bin(smt.OpShl, rq, c.BV(s, 64))
		res = c.Ite(c.Cmp(smt.OpULe, lo, a), rounded, res) // a later (larger s) range overrides an earlier one
	}
	if signed {
		res = c.Ite(neg, c.Un(smt.OpNeg, res), res)
	}
	return mkSymInt(res)
}

func ifaceOf(t types.Type, v Value) Value { return Value{K: KIface, R: &IfaceV{T: t, V: v}} }

// jsonGeneric decodes a document into the generic Go representation.
func (in *Interp) jsonGeneric(d *OTerm) Value {
	switch d.Ctor {
	case "null":
		return Value{K: KIface}
	case "bool":
		return ifaceOf(tBool, d.Args[0].(Value))
	case "num":
		return ifaceOf(tFloat64, Value{K: KOpaque, R: &floatV{v: in.round53(d.Args[1].(Value), d.Args[0].(bool))}})
	case "str":
		return ifaceOf(tString, in.stringOfRunes(d.Args[0].(*OTerm)))
	case "list":
		out := make([]Value, len(d.Args))
		for i, a := range d.Args {
			out[i] = in.jsonGeneric(a.(*OTerm))
		}
		return ifaceOf(tSliceI, Value{K: KSlice, R: &SliceV{S: out}})
	case "obj":
		m := newMap()
		for i := 0; i+1 < len(d.Args); i += 2 {
			k := mkStr(d.Args[i].(string))
			ks, _ := keyOf(k)
			m.set(ks, k, in.jsonGeneric(d.Args[i+1].(*OTerm)))
		}
		return ifaceOf(tMapSI, Value{K: KMap, R: m})
	}
	unsupported("json: generic decoding of %s", d.Ctor)
	return Value{}
}

// stringOfRunes: the Go string a JSON string leaf decodes to. Concrete runes are re-encoded; a leaf with
// symbolic runes stays an opaque string that re-marshals to exactly the same rune sequence.
func (in *Interp) stringOfRunes(r *OTerm) Value {
	var b []rune
	for _, a := range r.Args {
		v, ok := a.(Value)
		if !ok || v.R != nil {
			return opqStr(ot("jsonstr", r))
		}
		b = append(b, rune(v.N))
	}
	return mkStr(string(b))
}

func (in *Interp) jsonDecodeInto(d *OTerm, t types.Type) Value {
	fail := func(msg string) { panic(cborErr{in.newErr("json: "+msg, Value{})}) }
	if d.Ctor == "null" {
		return zero(t)
	}
	if n, ok := types.Unalias(t).(*types.Named); ok && n.Obj().Pkg() != nil && n.Obj().Pkg().Path() == "github.com/ipfs/go-cid" && n.Obj().Name() == "Cid" {
		// cid.Cid.UnmarshalJSON: {"/": "<text>"}
		if d.Ctor == "obj" && len(d.Args) == 2 && d.Args[0].(string) == "/" {
			if s := d.Args[1].(*OTerm); s.Ctor == "str" {
				r := in.cidFromText(in.stringOfRunesOrAtom(s.Args[0])).R.([]Value)
				if r[1].R != nil {
					panic(cborErr{r[1]})
				}
				return r[0]
			}
		}
		fail("not a cid link object")
	}
	switch u := t.Underlying().(type) {
	case *types.Interface:
		return in.jsonGeneric(d)
	case *types.Basic:
		switch {
		case u.Info()&types.IsString != 0:
			if d.Ctor != "str" {
				fail("expected string")
			}
			return in.stringOfRunesOrAtom(d.Args[0])
		case u.Info()&types.IsBoolean != 0:
			if d.Ctor != "bool" {
				fail("expected bool")
			}
			return d.Args[0].(Value)
		case u.Info()&types.IsInteger != 0:
			if d.Ctor != "num" {
				fail("expected number")
			}
			v := d.Args[1].(Value)
			w, _, _ := intInfo(u)
			if v.W != w {
				return in.convert(types.Typ[types.Int64], t, v)
			}
			return v
		}
	case *types.Pointer:
		p := new(Value)
		*p = in.jsonDecodeInto(d, u.Elem())
		return Value{K: KPtr, R: p}
	case *types.Slice:
		if d.Ctor != "list" {
			fail("expected list")
		}
		out := make([]Value, len(d.Args))
		for i, a := range d.Args {
			out[i] = in.jsonDecodeInto(a.(*OTerm), u.Elem())
		}
		return Value{K: KSlice, R: &SliceV{S: out}}
	case *types.Struct:
		if d.Ctor != "obj" {
			fail("expected object")
		}
		out := zero(t)
		fs := out.R.([]Value)
		for i := 0; i+1 < len(d.Args); i += 2 {
			key := d.Args[i].(string)
			for k := 0; k < u.NumFields(); k++ {
				name, _, skip := jsonTag(u.Field(k), u.Tag(k))
				if !skip && u.Field(k).Exported() && strings.EqualFold(name, key) {
					fs[k] = in.jsonDecodeInto(d.Args[i+1].(*OTerm), u.Field(k).Type())
				}
			}
		}
		return out
	}
	fail("cannot decode into " + t.String())
	return Value{}
}

func (in *Interp) stringOfRunesOrAtom(a interface{}) Value {
	switch x := a.(type) {
	case *OTerm:
		if x.Ctor == "runes" {
			if len(x.Args) == 1 {
				if at, ok := x.Args[0].(*OTerm); ok && at.Ctor == "atom" {
					return atomStr(at.Args[0].(*Atom), at.Args[1].(string))
				}
				if o, ok := x.Args[0].(*OTerm); ok {
					return opqStr(o)
				}
			}
			return in.stringOfRunes(x)
		}
		if x.Ctor == "atom" {
			return atomStr(x.Args[0].(*Atom), x.Args[1].(string))
		}
		return opqStr(x)
	}
	return mkStr("")
}

func init() {
	intrinsics["encoding/json.Unmarshal"] = func(in *Interp, fr *Frame, a []Value) (Value, bool) {
		t, ok := opaqueOfBytes(a[0])
		if !ok || t.Ctor != "json" {
			return in.newErr("json: not a JSON document", Value{}), true
		}
		if a[1].R == nil {
			return in.newErr("json: Unmarshal(nil)", Value{}), true
		}
		iv := a[1].R.(*IfaceV)
		pt, ok := iv.T.Underlying().(*types.Pointer)
		if !ok || iv.V.R == nil {
			return in.newErr("json: Unmarshal(non-pointer)", Value{}), true
		}
		var res Value
		err := func() (err Value) {
			defer func() {
				if r := recover(); r != nil {
					if ce, ok := r.(cborErr); ok {
						err = ce.err
						return
					}
					panic(r)
				}
			}()
			res = in.jsonDecodeInto(t.Args[0].(*OTerm), pt.Elem())
			return Value{K: KIface}
		}()
		if err.R != nil {
			return err, true
		}
		*(iv.V.R.(*Value)) = res
		return nilErr, true
	}
}

// ---- integral float64 arithmetic (just enough for comparisons through float64) ----------------------
//
// floatI is float64(x) for a signed integer x of at most 64 bits: sign and magnitude, the magnitude being
// |x| rounded to 53 bits (at most 2^63, so it fits an unsigned 64-bit vector). floatSub is the IEEE
// difference of two such values, kept unevaluated: the only thing modelled about it is its comparison
// with zero, which for finite operands is exactly the comparison of the operands (correct rounding
// never changes the sign of a difference and yields zero only for equal operands).
type floatI struct {
	neg *smt.Term // Bool
	mag *smt.Term // BV64 unsigned
}
type floatSub struct{ a, b *floatI }

func (in *Interp) floatOfInt(x Value, w uint8, signed bool) Value {
	c := in.Ctx
	if x.R == nil {
		var v int64
		if signed {
			v = sextW(x.N, w)
		} else {
			if x.N >= 1<<63 {
				return Value{K: KOpaque, R: poison("float64 of an unsigned value >= 2^63")}
			}
			v = int64(x.N)
		}
		return in.floatConst(float64(v))
	}
	t := x.R.(*smt.Term)
	if w < 64 {
		if signed {
			t = c.SExt(t, 64)
		} else {
			t = c.ZExt(t, 64)
		}
		signed = true
	}
	if !signed {
		return Value{K: KOpaque, R: poison("float64 of a symbolic uint64")}
	}
	neg := c.Cmp(smt.OpSLt, t, c.BV(0, 64))
	a := mkSymInt(c.Ite(neg, c.Un(smt.OpNeg, t), t)) // |x| as unsigned; 2^63 for the minimum
	m := in.round53(a, false)
	return Value{K: KOpaque, R: &floatI{neg: neg, mag: m.Term(c)}}
}

func (in *Interp) floatConst(f float64) Value {
	c := in.Ctx
	if f != math.Trunc(f) || f > 9223372036854775808.0 || f < -9223372036854775808.0 {
		return Value{K: KOpaque, R: poison("non-integral float const")}
	}
	neg := f < 0
	if neg {
		f = -f
	}
	return Value{K: KOpaque, R: &floatI{neg: c.Bool(neg), mag: c.BV(uint64(f), 64)}}
}

func (in *Interp) floatLtEq(a, b *floatI) (lt, eq *smt.Term) {
	c := in.Ctx
	az := c.Cmp(smt.OpEq, a.mag, c.BV(0, 64))
	bz := c.Cmp(smt.OpEq, b.mag, c.BV(0, 64))
	an := c.And(a.neg, c.Not(az))
	bn := c.And(b.neg, c.Not(bz))
	eq = c.And(c.Cmp(smt.OpEq, a.mag, b.mag), c.Cmp(smt.OpEq, an, bn))
	lt = c.Or(c.And(an, c.Not(bn)),
		c.Or(c.And(c.And(c.Not(an), c.Not(bn)), c.Cmp(smt.OpULt, a.mag, b.mag)),
			c.And(c.And(an, bn), c.Cmp(smt.OpULt, b.mag, a.mag))))
	return
}

// floatBinop handles the float operations that are modelled; ok=false for everything else.
func (in *Interp) floatBinop(op token.Token, x, y Value) (Value, bool) {
	xi, xIsI := x.R.(*floatI)
	yi, yIsI := y.R.(*floatI)
	xs, xIsS := x.R.(*floatSub)
	ys, yIsS := y.R.(*floatSub)
	c := in.Ctx
	isZero := func(f *floatI) bool { return f.mag.IsConst() && f.mag.Val == 0 }
	var a, b *floatI
	switch {
	case xIsI && yIsI:
		if op == token.SUB {
			return Value{K: KOpaque, R: &floatSub{xi, yi}}, true
		}
		a, b = xi, yi
	case xIsS && yIsI && isZero(yi):
		a, b = xs.a, xs.b // (a-b) ? 0  <=>  a ? b
	case xIsI && isZero(xi) && yIsS:
		a, b = ys.b, ys.a // 0 ? (a-b)  <=>  b ? a
	default:
		return Value{}, false
	}
	lt, eq := in.floatLtEq(a, b)
	switch op {
	case token.EQL:
		return mkSymBool(eq), true
	case token.NEQ:
		return mkSymBool(c.Not(eq)), true
	case token.LSS:
		return mkSymBool(lt), true
	case token.LEQ:
		return mkSymBool(c.Or(lt, eq)), true
	case token.GTR:
		return mkSymBool(c.Not(c.Or(lt, eq))), true
	case token.GEQ:
		return mkSymBool(c.Not(lt)), true
	}
	return Value{}, false
}

func init() {
	minmax := func(max bool) ixFn {
		return func(in *Interp, fr *Frame, a []Value) (Value, bool) {
			x, ok1 := a[0].R.(*floatI)
			y, ok2 := a[1].R.(*floatI)
			if !ok1 || !ok2 {
				return Value{K: KOpaque, R: poison("math.Max/Min of a float that is not an integer converted to float64")}, true
			}
			c := in.Ctx
			lt, _ := in.floatLtEq(x, y)
			pickY := lt // Max: y when x < y
			if !max {
				pickY, _ = in.floatLtEq(y, x) // Min: y when y < x
			}
			return Value{K: KOpaque, R: &floatI{neg: c.Ite(pickY, y.neg, x.neg), mag: c.Ite(pickY, y.mag, x.mag)}}, true
		}
	}
	intrinsics["math.Max"] = minmax(true)
	intrinsics["math.Min"] = minmax(false)
}
