package interp

import (
	"go/types"
	"reflect"
	"sort"
	"strings"
	"unicode/utf8"

	"gosx/smt"
)

// ---- encoding/json document model ------------------------------------------------------------------
//
// json.Marshal(v) is modelled by its documented contract: the result is the canonical rendering of a
// document tree (objects with sorted keys for maps / declaration order for structs, lists, strings,
// numbers, null, booleans). Struct tags (name, omitempty, "-") are honoured. Strings are "coerced to
// valid UTF-8, replacing invalid bytes with the Unicode replacement rune": a string leaf is the sequence
// of runes after that coercion, computed on symbolic bytes by forking on the UTF-8 class of each byte.
// The byte string returned is opaque (json(tree)); two are equal iff the trees are equal (JSON text is an
// injective rendering of the tree).

func (in *Interp) jsonMarshal(v Value) *OTerm {
	iv, ok := v.R.(*IfaceV)
	if v.R == nil || !ok {
		return ot("json", ot("null"))
	}
	return ot("json", in.jsonEncode(iv.T, iv.V))
}

func jsonTag(f *types.Var, tag string) (name string, omitEmpty, skip bool) {
	name = f.Name()
	t := reflect.StructTag(tag).Get("json")
	if t == "-" {
		return "", false, true
	}
	parts := strings.Split(t, ",")
	if parts[0] != "" {
		name = parts[0]
	}
	for _, p := range parts[1:] {
		if p == "omitempty" {
			omitEmpty = true
		}
	}
	return
}

func (in *Interp) isEmptyValue(v Value) bool {
	switch v.K {
	case KInt, KBool:
		return v.R == nil && v.N == 0
	case KStr:
		s, ok := v.ConcStr()
		return ok && s == ""
	case KSlice:
		return v.R == nil || len(v.R.(*SliceV).S) == 0
	case KMap:
		return v.R == nil || v.R.(*MapV).n == 0
	case KPtr, KIface, KFunc, KChan:
		return v.R == nil
	}
	return false
}

func (in *Interp) jsonEncode(t types.Type, v Value) *OTerm {
	// types with their own MarshalJSON
	if n, ok := types.Unalias(t).(*types.Named); ok && n.Obj().Pkg() != nil {
		if n.Obj().Pkg().Path() == "github.com/ipfs/go-cid" && n.Obj().Name() == "Cid" {
			// cid.Cid.MarshalJSON: {"/": "<string form>"} ; undefined cid: null
			fs := v.R.([]Value)
			if s, ok := fs[0].ConcStr(); ok && s == "" {
				return ot("null")
			}
			at, _ := cidAtom(v)
			return ot("obj", "/", ot("str", ot("atom", at, "str")))
		}
	}
	switch u := t.Underlying().(type) {
	case *types.Basic:
		switch {
		case u.Info()&types.IsString != 0:
			return ot("str", in.coerceUTF8(v))
		case u.Info()&types.IsBoolean != 0:
			return ot("bool", v)
		case u.Info()&types.IsInteger != 0:
			_, signed, _ := intInfo(u)
			return ot("num", signed, v)
		}
	case *types.Pointer:
		if v.R == nil {
			return ot("null")
		}
		return in.jsonEncode(u.Elem(), *(v.R.(*Value)))
	case *types.Interface:
		if v.R == nil {
			return ot("null")
		}
		iv := v.R.(*IfaceV)
		return in.jsonEncode(iv.T, iv.V)
	case *types.Slice:
		if v.R == nil {
			return ot("null")
		}
		if w, _, ok := intInfo(u.Elem()); ok && w == 8 {
			// []byte encodes as a base64 string
			return ot("str", ot("b64", in.msgArg(v)))
		}
		args := []interface{}{}
		for _, e := range v.R.(*SliceV).S {
			args = append(args, in.jsonEncode(u.Elem(), e))
		}
		return &OTerm{Ctor: "list", Args: args}
	case *types.Array:
		args := []interface{}{}
		for _, e := range v.R.([]Value) {
			args = append(args, in.jsonEncode(u.Elem(), e))
		}
		return &OTerm{Ctor: "list", Args: args}
	case *types.Map:
		if v.R == nil {
			return ot("null")
		}
		m := v.R.(*MapV)
		type kv struct {
			k string
			v Value
		}
		var kvs []kv
		for i, k := range m.Keys {
			if !m.Live[i] {
				continue
			}
			ks, ok := k.ConcStr()
			if !ok {
				unsupported("json: map with non-concrete key")
			}
			kvs = append(kvs, kv{ks, m.Vals[i]})
		}
		sort.Slice(kvs, func(i, j int) bool { return kvs[i].k < kvs[j].k })
		args := []interface{}{}
		for _, e := range kvs {
			args = append(args, e.k, in.jsonEncode(u.Elem(), e.v))
		}
		return &OTerm{Ctor: "obj", Args: args}
	case *types.Struct:
		fs := v.R.([]Value)
		args := []interface{}{}
		for i := 0; i < u.NumFields(); i++ {
			f := u.Field(i)
			if !f.Exported() {
				continue
			}
			name, omit, skip := jsonTag(f, u.Tag(i))
			if skip || (omit && in.isEmptyValue(fs[i])) {
				continue
			}
			args = append(args, name, in.jsonEncode(f.Type(), fs[i]))
		}
		return &OTerm{Ctor: "obj", Args: args}
	}
	unsupported("json.Marshal of %s", t)
	return nil
}

// coerceUTF8 returns the string as the list of its runes after encoding/json's coercion to valid UTF-8
// (each invalid byte becomes U+FFFD). Opaque segments stay opaque units. Symbolic bytes fork per UTF-8 class.
func (in *Interp) coerceUTF8(v Value) *OTerm {
	c := in.Ctx
	r := ropeOf(v)
	args := []interface{}{}
	rune32 := func(x uint64) Value { return mkInt(x, 32) }
	for _, sg := range r.Segs {
		switch {
		case sg.Opq != nil:
			args = append(args, sg.Opq)
		case sg.Atom != nil:
			args = append(args, ot("atom", sg.Atom, sg.Tag))
		case sg.Sym == nil:
			s := sg.S
			for len(s) > 0 {
				rn, n := utf8.DecodeRuneInString(s)
				args = append(args, rune32(uint64(rn)))
				s = s[n:]
			}
		default:
			bs := sg.Sym
			i := 0
			between := func(b *smt.Term, lo, hi uint64) *smt.Term {
				return c.And(c.Cmp(smt.OpULe, c.BV(lo, 8), b), c.Cmp(smt.OpULe, b, c.BV(hi, 8)))
			}
			bits := func(b *smt.Term, mask uint64) *smt.Term {
				return c.ZExt(c.Bin(smt.OpAnd, b, c.BV(mask, 8)), 32)
			}
			shl := func(t *smt.Term, n uint64) *smt.Term { return c.Bin(smt.OpShl, t, c.BV(n, 32)) }
			or := func(a, b *smt.Term) *smt.Term { return c.Bin(smt.OpOr, a, b) }
			for i < len(bs) {
				b0 := bs[i]
				if in.Branch(c.Cmp(smt.OpULt, b0, c.BV(0x80, 8)), "utf8 ascii") {
					args = append(args, mkSymInt(c.ZExt(b0, 32)))
					i++
					continue
				}
				// two-byte sequence C2..DF 80..BF
				if i+1 < len(bs) && in.Branch(c.And(between(b0, 0xC2, 0xDF), between(bs[i+1], 0x80, 0xBF)), "utf8 2-byte") {
					args = append(args, mkSymInt(or(shl(bits(b0, 0x1F), 6), bits(bs[i+1], 0x3F))))
					i += 2
					continue
				}
				// three-byte sequences (E0 A0..BF | E1..EC,EE,EF 80..BF | ED 80..9F) 80..BF
				if i+2 < len(bs) {
					b1, b2 := bs[i+1], bs[i+2]
					lead := c.Or(c.And(c.Cmp(smt.OpEq, b0, c.BV(0xE0, 8)), between(b1, 0xA0, 0xBF)),
						c.Or(c.And(c.Or(between(b0, 0xE1, 0xEC), between(b0, 0xEE, 0xEF)), between(b1, 0x80, 0xBF)),
							c.And(c.Cmp(smt.OpEq, b0, c.BV(0xED, 8)), between(b1, 0x80, 0x9F))))
					if in.Branch(c.And(lead, between(b2, 0x80, 0xBF)), "utf8 3-byte") {
						args = append(args, mkSymInt(or(or(shl(bits(b0, 0x0F), 12), shl(bits(b1, 0x3F), 6)), bits(b2, 0x3F))))
						i += 3
						continue
					}
				}
				// four-byte sequences
				if i+3 < len(bs) {
					b1, b2, b3 := bs[i+1], bs[i+2], bs[i+3]
					lead := c.Or(c.And(c.Cmp(smt.OpEq, b0, c.BV(0xF0, 8)), between(b1, 0x90, 0xBF)),
						c.Or(c.And(between(b0, 0xF1, 0xF3), between(b1, 0x80, 0xBF)),
							c.And(c.Cmp(smt.OpEq, b0, c.BV(0xF4, 8)), between(b1, 0x80, 0x8F))))
					if in.Branch(c.And(lead, c.And(between(b2, 0x80, 0xBF), between(b3, 0x80, 0xBF))), "utf8 4-byte") {
						args = append(args, mkSymInt(or(or(shl(bits(b0, 0x07), 18), shl(bits(b1, 0x3F), 12)), or(shl(bits(b2, 0x3F), 6), bits(b3, 0x3F)))))
						i += 4
						continue
					}
				}
				// invalid byte: replaced by U+FFFD
				args = append(args, rune32(0xFFFD))
				in.Cover["json-invalid-utf8-coerced"] = true
				i++
			}
		}
	}
	return &OTerm{Ctor: "runes", Args: args}
}

func init() {
	intrinsics["encoding/json.Marshal"] = func(in *Interp, fr *Frame, a []Value) (Value, bool) {
		return tuple(opqBytes(in.jsonMarshal(a[0])), nilErr), true
	}
}
