// Package interp: a small-step symbolic interpreter for go/ssa.
package interp

import (
	"fmt"
	"go/types"
	"strings"

	"gosx/smt"

	"golang.org/x/tools/go/ssa"
)

type Kind uint8

const (
	KInvalid Kind = iota
	KInt
	KBool
	KStr
	KPtr
	KStruct
	KArray
	KSlice
	KMap
	KIface
	KFunc
	KChan
	KTuple
	KOpaque
)

// Value is a tagged union; see field comments per kind.
type Value struct {
	K Kind
	W uint8       // KInt: bit width
	N uint64      // KInt/KBool: concrete value when R==nil
	R interface{} // KInt/KBool: *smt.Term if symbolic; KStr: string|*Rope; KPtr: *Value; KStruct/KArray/KTuple: []Value;
	// KSlice: *SliceV; KMap: *MapV; KIface: *IfaceV; KFunc: *Closure|*Intrinsic; KChan: *ChanV; KOpaque: any
}

type SliceV struct{ S []Value }

type MapV struct {
	Keys  []Value
	Vals  []Value
	Live  []bool
	idx   map[string]int
	n     int
	fuzzy []int // positions of live keys without concrete identity (compared by formula on lookup)
}

type IfaceV struct {
	T types.Type
	V Value
}

type Closure struct {
	Fn  *ssa.Function
	Env []Value
}

type Intrinsic struct {
	Name string
	F    func(in *Interp, fr *Frame, args []Value) (Value, bool) // ok=false ⇒ blocked, retry later
}

// Atom: opaque value with concrete identity and symbolic rank (CIDs, keys).
type Atom struct {
	ID    int
	Fam   string
	Key   string
	ranks map[string]*smt.Term // per textual form (tag): the order of different encodings of one value may differ
}

// RankOf returns the symbolic rank of the atom's textual form `tag`; ranks of one family+tag are pairwise distinct.
func (a *Atom) RankOf(in *Interp, tag string) *smt.Term {
	if r, ok := a.ranks[tag]; ok {
		return r
	}
	c := in.Ctx
	r := c.Var(fmt.Sprintf("rank_%s_%s_%s", a.Fam, tag, a.Key), 16)
	a.ranks[tag] = r
	for _, o := range in.atomList {
		if o != a && o.Fam == a.Fam {
			if or, ok := o.ranks[tag]; ok {
				in.assertPC(c.Not(c.Cmp(smt.OpEq, r, or)))
			}
		}
	}
	return r
}

// Rope is a string/byte sequence made of segments.
type Rope struct{ Segs []Seg }
type Seg struct {
	S    string      // concrete
	Sym  []*smt.Term // symbolic bytes (W=8)
	Atom *Atom       // opaque
	Tag  string      // derivation tag for atoms ("str", "b58", "bytes")
	Opq  *OTerm      // opaque constructor term (hex/base64 text of an opaque value, digest, ...)
}

func (s Seg) plain() bool { return s.Sym == nil && s.Atom == nil && s.Opq == nil }

type BoundMethod struct {
	Recv Value
	Fn   *ssa.Function
}

func mkInt(v uint64, w uint8) Value { return Value{K: KInt, W: w, N: v & maskW(w)} }
func mkBool(b bool) Value {
	if b {
		return Value{K: KBool, N: 1}
	}
	return Value{K: KBool}
}
func mkStr(s string) Value { return Value{K: KStr, R: s} }
func mkSymInt(t *smt.Term) Value {
	if t.IsConst() {
		return mkInt(t.Val, t.W)
	}
	return Value{K: KInt, W: t.W, R: t}
}
func mkSymBool(t *smt.Term) Value {
	if t.IsConst() {
		return mkBool(t.Val == 1)
	}
	return Value{K: KBool, R: t}
}

func maskW(w uint8) uint64 {
	if w >= 64 {
		return ^uint64(0)
	}
	return (uint64(1) << w) - 1
}

func sextW(v uint64, w uint8) int64 {
	if w >= 64 {
		return int64(v)
	}
	sh := 64 - uint(w)
	return int64(v<<sh) >> sh
}

func (v Value) IsSym() bool {
	if v.K == KInt || v.K == KBool {
		return v.R != nil
	}
	return false
}

func (v Value) Term(c *smt.Ctx) *smt.Term {
	switch v.K {
	case KInt:
		if v.R != nil {
			return v.R.(*smt.Term)
		}
		return c.BV(v.N, v.W)
	case KBool:
		if v.R != nil {
			return v.R.(*smt.Term)
		}
		return c.Bool(v.N == 1)
	}
	panic(fmt.Sprintf("Term of kind %d", v.K))
}

func intInfo(t types.Type) (w uint8, signed bool, ok bool) {
	b, isB := t.Underlying().(*types.Basic)
	if !isB {
		return 0, false, false
	}
	switch b.Kind() {
	case types.Int, types.Int64, types.UntypedInt:
		return 64, true, true
	case types.Int32, types.UntypedRune:
		return 32, true, true
	case types.Int16:
		return 16, true, true
	case types.Int8:
		return 8, true, true
	case types.Uint, types.Uint64, types.Uintptr:
		return 64, false, true
	case types.Uint32:
		return 32, false, true
	case types.Uint16:
		return 16, false, true
	case types.Uint8:
		return 8, false, true
	}
	return 0, false, false
}

// zero returns the zero value of a type.
func zero(t types.Type) Value {
	switch t := t.(type) {
	case *types.Basic:
		if w, _, ok := intInfo(t); ok {
			return Value{K: KInt, W: w}
		}
		switch t.Kind() {
		case types.Bool, types.UntypedBool:
			return Value{K: KBool}
		case types.String, types.UntypedString:
			return mkStr("")
		case types.UnsafePointer:
			return Value{K: KPtr}
		case types.UntypedNil:
			return Value{K: KPtr}
		case types.Float32, types.Float64, types.UntypedFloat:
			return Value{K: KOpaque, R: poison("float")}
		}
		panic("zero: basic " + t.String())
	case *types.Pointer:
		return Value{K: KPtr}
	case *types.Struct:
		fs := make([]Value, t.NumFields())
		for i := range fs {
			fs[i] = zero(t.Field(i).Type())
		}
		return Value{K: KStruct, R: fs}
	case *types.Array:
		es := make([]Value, t.Len())
		for i := range es {
			es[i] = zero(t.Elem())
		}
		return Value{K: KArray, R: es}
	case *types.Slice:
		return Value{K: KSlice}
	case *types.Map:
		return Value{K: KMap}
	case *types.Interface:
		return Value{K: KIface}
	case *types.Signature:
		return Value{K: KFunc}
	case *types.Chan:
		return Value{K: KChan}
	case *types.Named:
		return zero(t.Underlying())
	case *types.Alias:
		return zero(types.Unalias(t))
	case *types.Tuple:
		vs := make([]Value, t.Len())
		for i := range vs {
			vs[i] = zero(t.At(i).Type())
		}
		return Value{K: KTuple, R: vs}
	case *types.TypeParam:
		panic("zero of type param")
	}
	panic(fmt.Sprintf("zero: %T", t))
}

type poison string

// copyVal deep-copies aggregates (value semantics of structs/arrays).
func copyVal(v Value) Value {
	switch v.K {
	case KStruct, KArray, KTuple:
		src := v.R.([]Value)
		dst := make([]Value, len(src))
		for i := range src {
			dst[i] = copyVal(src[i])
		}
		return Value{K: v.K, R: dst}
	}
	return v
}

// ---- strings ----

func (v Value) ConcStr() (string, bool) {
	if v.K != KStr {
		return "", false
	}
	switch s := v.R.(type) {
	case string:
		return s, true
	case *Rope:
		if len(s.Segs) == 0 {
			return "", true
		}
		var b strings.Builder
		for _, sg := range s.Segs {
			if !sg.plain() || sg.Sym != nil {
				return "", false
			}
			b.WriteString(sg.S)
		}
		return b.String(), true
	}
	return "", false
}

func ropeOf(v Value) *Rope {
	switch s := v.R.(type) {
	case string:
		if s == "" {
			return &Rope{}
		}
		return &Rope{Segs: []Seg{{S: s}}}
	case *Rope:
		return s
	}
	panic("ropeOf")
}

func normRope(r *Rope) Value {
	var out []Seg
	for _, s := range r.Segs {
		if s.plain() {
			if s.S == "" {
				continue
			}
			if n := len(out); n > 0 && out[n-1].plain() {
				out[n-1].S += s.S
				continue
			}
		}
		out = append(out, s)
	}
	if len(out) == 0 {
		return mkStr("")
	}
	if len(out) == 1 && out[0].plain() {
		return mkStr(out[0].S)
	}
	return Value{K: KStr, R: &Rope{Segs: out}}
}

func concatStr(a, b Value) Value {
	ra, rb := ropeOf(a), ropeOf(b)
	segs := append(append([]Seg{}, ra.Segs...), rb.Segs...)
	return normRope(&Rope{Segs: segs})
}

func atomStr(a *Atom, tag string) Value {
	return Value{K: KStr, R: &Rope{Segs: []Seg{{Atom: a, Tag: tag}}}}
}

// singleAtom returns the atom if the string is exactly one atom segment.
func singleAtom(v Value) (*Atom, string, bool) {
	if r, ok := v.R.(*Rope); ok && len(r.Segs) == 1 && r.Segs[0].Atom != nil {
		return r.Segs[0].Atom, r.Segs[0].Tag, true
	}
	return nil, "", false
}

// keyOf: canonical map key for values of concrete identity.
func keyOf(v Value) (string, bool) {
	switch v.K {
	case KInt, KBool:
		if v.R != nil {
			return "", false
		}
		return fmt.Sprintf("i%d", v.N), true
	case KStr:
		if s, ok := v.ConcStr(); ok {
			return "s" + s, true
		}
		r := v.R.(*Rope)
		var b strings.Builder
		b.WriteString("r")
		for _, sg := range r.Segs {
			switch {
			case sg.Atom != nil:
				fmt.Fprintf(&b, "<%s#%d/%s>", sg.Atom.Fam, sg.Atom.ID, sg.Tag)
			case sg.Opq != nil:
				k, ok := otermKey(sg.Opq)
				if !ok {
					return "", false
				}
				b.WriteString("<" + k + ">")
			case sg.Sym != nil:
				return "", false
			default:
				fmt.Fprintf(&b, "%q", sg.S)
			}
		}
		return b.String(), true
	case KStruct, KArray:
		var b strings.Builder
		b.WriteString("{")
		for _, f := range v.R.([]Value) {
			k, ok := keyOf(f)
			if !ok {
				return "", false
			}
			b.WriteString(k)
			b.WriteString(";")
		}
		b.WriteString("}")
		return b.String(), true
	case KPtr:
		return fmt.Sprintf("p%p", v.R), true
	case KIface:
		if v.R == nil {
			return "nil", true
		}
		iv := v.R.(*IfaceV)
		k, ok := keyOf(iv.V)
		return "I" + iv.T.String() + ":" + k, ok
	}
	return "", false
}

func newMap() *MapV { return &MapV{idx: map[string]int{}} }

func (m *MapV) get(k string) (Value, bool) {
	if i, ok := m.idx[k]; ok {
		return m.Vals[i], true
	}
	return Value{}, false
}

func (m *MapV) set(k string, key, val Value) {
	if i, ok := m.idx[k]; ok {
		m.Vals[i] = val
		return
	}
	m.idx[k] = len(m.Keys)
	m.Keys = append(m.Keys, key)
	m.Vals = append(m.Vals, val)
	m.Live = append(m.Live, true)
	m.n++
}

func (m *MapV) del(k string) {
	if i, ok := m.idx[k]; ok {
		delete(m.idx, k)
		m.Live[i] = false
		m.n--
	}
}
