package interp

import (
	"fmt"
	"strings"
	"sync"

	"gosx/smt"
)

// Dec is one recorded decision. Val is the choice taken; Excl (only on the last
// element of a pending prefix) lists values already explored by siblings.
type Dec struct {
	Val     uint64
	Excl    []uint64
	Pending bool
}

var debugSites map[string]int
var debugMu sync.Mutex

func EnableDebugSites() { debugSites = map[string]int{} }
func DebugSites() map[string]int { return debugSites }
func truncate(s string, n int) string {
	if len(s) > n {
		return s[:n]
	}
	return s
}

type abortPath struct{ why string }
type inconclusive struct{ why string }

type Violation struct {
	Prop, Msg string
	Sig       string // prop | msg | tags  (dedup / known-findings key)
	Detail    string
	Model     smt.Model
	Replay    *ReplayModel
	Prefix    []Dec
	Panic     bool
	Harness   string
}

func (in *Interp) addViolation(prop, msg string, m smt.Model, isPanic bool, detail string) {
	sig := prop + " | " + msg
	for _, t := range in.sigTags {
		sig += " | " + t
	}
	v := Violation{Prop: prop, Msg: msg, Sig: sig, Detail: detail, Model: m, Prefix: append([]Dec{}, in.P.taken...), Panic: isPanic, Harness: in.HarnessName}
	if m != nil || isPanic {
		v.Replay = in.BuildReplay(m)
		v.Replay.Expect = []string{sig}
	}
	in.Violations = append(in.Violations, v)
}

// PathState is the per-run exploration state.
type PathState struct {
	prefix []Dec
	pos    int
	taken  []Dec
	pc     []*smt.Term
	model  smt.Model // cached model of pc (nil if unknown)
	spawn  func(p []Dec)
}

func (in *Interp) modelVars() []*smt.Term { return in.Ctx.Vars }

func (in *Interp) assertPC(t *smt.Term) {
	in.P.pc = append(in.P.pc, t)
	in.Sol.Assert(t)
}

// feasible: is pc ∧ t satisfiable? updates nothing.
func (in *Interp) feasible(t *smt.Term) (bool, smt.Model) {
	if t.IsConst() {
		return t.Val == 1, in.P.model
	}
	if in.P.model != nil {
		if v, ok := smt.Eval(t, in.P.model); ok && v == 1 {
			in.Stats.ModelHits++
			return true, in.P.model
		}
	}
	r, m := in.Sol.Check(t, true, in.modelVars())
	in.Stats.BranchQueries++
	switch r {
	case smt.Sat:
		return true, m
	case smt.Unsat:
		return false, nil
	}
	// unknown: keep the branch (sound for verification), no model
	in.Stats.Unknown++
	return true, nil
}

// Branch decides a symbolic condition; returns the side taken.
func (in *Interp) Branch(cond *smt.Term, site string) bool {
	if cond.IsConst() {
		return cond.Val == 1
	}
	p := in.P
	if p.pos < len(p.prefix) && !p.prefix[p.pos].Pending {
		d := p.prefix[p.pos]
		p.pos++
		p.taken = append(p.taken, Dec{Val: d.Val})
		if d.Val == 1 {
			in.assertPC(cond)
		} else {
			in.assertPC(in.Ctx.Not(cond))
		}
		return d.Val == 1
	}
	in.Stats.Decisions++
	if debugSites != nil {
		debugMu.Lock()
		debugSites[site+" :: "+truncate(cond.SMT(), 120)]++
		debugMu.Unlock()
	}
	okT, mT := in.feasible(cond)
	okF, mF := in.feasible(in.Ctx.Not(cond))
	switch {
	case okT && okF:
		alt := append(append([]Dec{}, p.taken...), Dec{Val: 0})
		p.spawn(alt)
		p.taken = append(p.taken, Dec{Val: 1})
		p.pos = len(p.prefix) + 1 // beyond prefix from now on
		in.assertPC(cond)
		if mT != nil {
			p.model = mT
		} else if p.model != nil {
			if v, ok := smt.Eval(cond, p.model); !ok || v != 1 {
				p.model = nil
			}
		}
		_ = mF
		return true
	case okT:
		p.taken = append(p.taken, Dec{Val: 1})
		in.assertPC(cond)
		if mT != nil {
			p.model = mT
		}
		return true
	case okF:
		p.taken = append(p.taken, Dec{Val: 0})
		in.assertPC(in.Ctx.Not(cond))
		if mF != nil {
			p.model = mF
		}
		return false
	}
	panic(abortPath{"infeasible at " + site})
}

// Pick chooses among n alternatives (n-ary decision, all explored).
func (in *Interp) Pick(n int, site string) int {
	if n <= 1 {
		return 0
	}
	p := in.P
	if p.pos < len(p.prefix) {
		d := p.prefix[p.pos]
		p.pos++
		p.taken = append(p.taken, Dec{Val: d.Val})
		return int(d.Val)
	}
	in.Stats.Decisions++
	for i := 1; i < n; i++ {
		alt := append(append([]Dec{}, p.taken...), Dec{Val: uint64(i)})
		p.spawn(alt)
	}
	p.taken = append(p.taken, Dec{Val: 0})
	p.pos = len(p.prefix) + 1
	return 0
}

// Concretize enumerates feasible values of t; forks per value.
func (in *Interp) Concretize(t *smt.Term, site string) uint64 {
	if t.IsConst() {
		return t.Val
	}
	p := in.P
	var excl []uint64
	if p.pos < len(p.prefix) {
		d := p.prefix[p.pos]
		p.pos++
		if !d.Pending {
			p.taken = append(p.taken, Dec{Val: d.Val})
			in.assertPC(in.Ctx.Cmp(smt.OpEq, t, in.Ctx.BV(d.Val, t.W)))
			return d.Val
		}
		excl = d.Excl
	}
	in.Stats.Decisions++
	c := in.Ctx
	cons := c.T
	for _, e := range excl {
		cons = c.And(cons, c.Not(c.Cmp(smt.OpEq, t, c.BV(e, t.W))))
	}
	r, m := in.Sol.Check(cons, true, in.modelVars())
	in.Stats.BranchQueries++
	if r != smt.Sat {
		if r == smt.Unknown {
			panic(inconclusive{"unknown in concretize at " + site})
		}
		panic(abortPath{"no more values at " + site})
	}
	v, ok := smt.Eval(t, m)
	if !ok {
		panic(inconclusive{"concretize eval"})
	}
	if len(excl) > 64 {
		panic(inconclusive{fmt.Sprintf("concretize: more than 64 values at %s", site)})
	}
	alt := append(append([]Dec{}, p.taken...), Dec{Pending: true, Excl: append(append([]uint64{}, excl...), v)})
	p.spawn(alt)
	p.taken = append(p.taken, Dec{Val: v})
	p.pos = len(p.prefix) + 1
	in.assertPC(c.Cmp(smt.OpEq, t, c.BV(v, t.W)))
	p.model = m
	return v
}

// Assume restricts the path.
func (in *Interp) Assume(cond *smt.Term) {
	if cond.IsConst() {
		if cond.Val == 0 {
			panic(abortPath{"assume false"})
		}
		return
	}
	ok, m := in.feasible(cond)
	if !ok {
		panic(abortPath{"assume infeasible"})
	}
	in.assertPC(cond)
	if m != nil {
		in.P.model = m
	} else {
		in.P.model = nil
	}
}

// Assert checks an obligation: pc ∧ ¬cond must be unsat.
func (in *Interp) Assert(prop string, cond *smt.Term, msg string) {
	in.Stats.Obligations++
	if cond.IsConst() && cond.Val == 1 {
		in.Stats.Discharged++
		return
	}
	neg := in.Ctx.Not(cond)
	var r smt.Result
	var m smt.Model
	if neg.IsConst() {
		// concretely false: any model of pc is a witness
		r, m = in.Sol.Check(nil, true, in.modelVars())
	} else {
		r, m = in.Sol.Check(neg, true, in.modelVars())
	}
	in.Stats.AssertQueries++
	if in.CrossSink != nil && (r == smt.Unsat || r == smt.Sat) {
		in.CrossSink(in.crossScript(neg), r.String())
	}
	switch r {
	case smt.Unsat:
		in.Stats.Discharged++
	case smt.Sat:
		in.addViolation(prop, msg, m, false, "")
		// continue under the assumption that cond holds, if possible
		if ok, m2 := in.feasible(cond); ok {
			in.assertPC(cond)
			in.P.model = m2
		} else {
			panic(abortPath{"assert always fails"})
		}
	default:
		in.Stats.Unknown++
		panic(inconclusive{"unknown on assertion " + msg})
	}
}

// crossScript renders the current assertion query (path condition and negated obligation) as a
// self-contained SMT-LIB2 script, for re-discharging with other solvers.
func (in *Interp) crossScript(neg *smt.Term) string {
	var b strings.Builder
	seen := map[int]bool{}
	var vars []*smt.Term
	for _, t := range in.P.pc {
		smt.CollectVars(t, seen, &vars)
	}
	if !neg.IsConst() {
		smt.CollectVars(neg, seen, &vars)
	}
	for _, v := range vars {
		if v.W == 0 {
			fmt.Fprintf(&b, "(declare-const |%s| Bool)\n", v.Name)
		} else {
			fmt.Fprintf(&b, "(declare-const |%s| (_ BitVec %d))\n", v.Name, v.W)
		}
	}
	var defs []string
	dseen := map[int]bool{}
	for _, t := range in.P.pc {
		smt.Definitions(t, dseen, &defs)
	}
	if !neg.IsConst() {
		smt.Definitions(neg, dseen, &defs)
	}
	for _, d := range defs {
		b.WriteString(d + "\n")
	}
	for _, t := range in.P.pc {
		fmt.Fprintf(&b, "(assert %s)\n", t.SMT())
	}
	if !neg.IsConst() {
		fmt.Fprintf(&b, "(assert %s)\n", neg.SMT())
	}
	b.WriteString("(check-sat)\n")
	return b.String()
}
