package interp

import (
	"go/types"
	"sort"

	"golang.org/x/tools/go/ssa"
)

// ---- refmt atlas + ipld-cbor document model ---------------------------------------------------------
//
// The atlas is RECORDED from the calls the repository's current source makes:
//   atlas.BuildEntry(T{}).StructMap().AddField(goField, StructMapEntry{SerialName, OmitEmpty})...Complete()
//   atlas.BuildEntry(T{}).UseTag(n).Transform().TransformMarshal(MakeMarshalTransformFunc(f))....Complete()
// Encoding walks a Go value through the recorded atlas (transform closures such as castCidToBytes are
// interpreted for real) and yields an abstract CBOR document; decoding is the inverse by serial name
// (missing key -> zero value, unknown key -> error, null -> nil). The bytes of a block are the opaque term
// cbor(doc) and its content identifier is cidof(doc): two blocks have the same identifier iff their
// documents are equal (canonical encoding, collision-free hash - the trusted contract of refmt/ipld-cbor).

type atlasField struct {
	GoName, Serial string
	OmitEmpty      bool
}

type atlasEntry struct {
	T         types.Type
	Fields    []atlasField // struct map
	IsStruct  bool
	Tag       int
	Tagged    bool
	Marshal   Value // transform closures
	Unmarshal Value
}

func typeKey(t types.Type) string { return types.TypeString(types.Unalias(t), nil) }

func (in *Interp) atlasFor(t types.Type) *atlasEntry {
	return in.atlas[typeKey(t)]
}

func builderOf(v Value) *atlasEntry {
	if v.R == nil {
		return nil
	}
	e, _ := v.R.(*Value).R.(*atlasEntry)
	return e
}

func builderValue(e *atlasEntry) Value { return Value{K: KPtr, R: &Value{K: KOpaque, R: e}} }

type cborNode struct {
	doc *OTerm
}

func (in *Interp) cidOfDoc(doc *OTerm) Value {
	if k, ok := otermKey(doc); ok {
		// a fully concrete document: its identifier is an ordinary atom (usable as a map key, ordered by rank)
		return cidOf(in.newAtom("cid", "doc:"+k))
	}
	return Value{K: KStruct, R: []Value{opqStr(ot("cidof", doc))}}
}

// ---- encoding ----

type cborErr struct{ err Value }

func (in *Interp) cborEncode(t types.Type, v Value) *OTerm {
	if e := in.atlasFor(t); e != nil {
		if e.IsStruct {
			fs := v.R.([]Value)
			st := t.Underlying().(*types.Struct)
			type kv struct {
				k string
				d *OTerm
			}
			var kvs []kv
			for _, f := range e.Fields {
				idx := -1
				for i := 0; i < st.NumFields(); i++ {
					if st.Field(i).Name() == f.GoName {
						idx = i
					}
				}
				if idx < 0 {
					unsupported("atlas field %s not in %s", f.GoName, t)
				}
				if f.OmitEmpty && in.isEmptyValue(fs[idx]) {
					continue
				}
				kvs = append(kvs, kv{f.Serial, in.cborEncode(st.Field(idx).Type(), fs[idx])})
			}
			// RFC 7049 canonical order: shorter keys first, then bytewise
			sort.Slice(kvs, func(i, j int) bool {
				if len(kvs[i].k) != len(kvs[j].k) {
					return len(kvs[i].k) < len(kvs[j].k)
				}
				return kvs[i].k < kvs[j].k
			})
			args := []interface{}{}
			for _, e := range kvs {
				args = append(args, e.k, e.d)
			}
			return &OTerm{Ctor: "map", Args: args}
		}
		if e.Marshal.R != nil {
			res := in.CallSync(e.Marshal, []Value{v})
			tu := res.R.([]Value)
			if tu[1].R != nil {
				panic(cborErr{tu[1]})
			}
			rt := e.Marshal.R.(*Closure).Fn.Signature.Results().At(0).Type()
			d := in.cborEncode(rt, tu[0])
			if e.Tagged {
				return ot("tag", e.Tag, d)
			}
			return d
		}
	}
	switch u := t.Underlying().(type) {
	case *types.Basic:
		switch {
		case u.Info()&types.IsString != 0:
			return ot("str", v)
		case u.Info()&types.IsBoolean != 0:
			return ot("bool", v)
		case u.Info()&types.IsInteger != 0:
			return ot("int", in.intAs64(u, v))
		}
	case *types.Pointer:
		if v.R == nil {
			return ot("null")
		}
		return in.cborEncode(u.Elem(), *(v.R.(*Value)))
	case *types.Interface:
		if v.R == nil {
			return ot("null")
		}
		iv := v.R.(*IfaceV)
		return in.cborEncode(iv.T, iv.V)
	case *types.Slice:
		if v.R == nil {
			return ot("null")
		}
		if w, _, ok := intInfo(u.Elem()); ok && w == 8 {
			return ot("bytes", in.msgArg(v))
		}
		args := []interface{}{}
		for _, e := range v.R.(*SliceV).S {
			args = append(args, in.cborEncode(u.Elem(), e))
		}
		return &OTerm{Ctor: "list", Args: args}
	case *types.Map:
		if v.R == nil {
			return ot("null")
		}
		m := v.R.(*MapV)
		type kv struct {
			k string
			d *OTerm
		}
		var kvs []kv
		for i, k := range m.Keys {
			if !m.Live[i] {
				continue
			}
			ks, ok := k.ConcStr()
			if !ok {
				unsupported("cbor: map with non-concrete key")
			}
			kvs = append(kvs, kv{ks, in.cborEncode(u.Elem(), m.Vals[i])})
		}
		sort.Slice(kvs, func(i, j int) bool {
			if len(kvs[i].k) != len(kvs[j].k) {
				return len(kvs[i].k) < len(kvs[j].k)
			}
			return kvs[i].k < kvs[j].k
		})
		args := []interface{}{}
		for _, e := range kvs {
			args = append(args, e.k, e.d)
		}
		return &OTerm{Ctor: "map", Args: args}
	case *types.Struct:
		unsupported("cbor: struct type %s without atlas entry", t)
	}
	unsupported("cbor encode of %s", t)
	return nil
}

// intAs64 widens an integer value to 64 bits (sign- or zero-extended) so that documents compare by value.
func (in *Interp) intAs64(b *types.Basic, v Value) Value {
	w, signed, _ := intInfo(b)
	if v.R == nil {
		if signed {
			return mkInt(uint64(sextW(v.N, w)), 64)
		}
		return mkInt(v.N, 64)
	}
	return in.convert(b, types.Typ[types.Int64], v)
}

// tryEncode runs the encoder, turning a transform error into (nil, err).
func (in *Interp) tryEncode(t types.Type, v Value) (doc *OTerm, err Value) {
	defer func() {
		if r := recover(); r != nil {
			if ce, ok := r.(cborErr); ok {
				doc, err = nil, ce.err
				return
			}
			panic(r)
		}
	}()
	return in.cborEncode(t, v), Value{K: KIface}
}

// ---- decoding ----

func (in *Interp) cborDecode(doc *OTerm, t types.Type) Value {
	fail := func(msg string) { panic(cborErr{in.newErr("cbor: "+msg, Value{})}) }
	if doc.Ctor == "null" {
		switch t.Underlying().(type) {
		case *types.Pointer, *types.Slice, *types.Map, *types.Interface:
			return zero(t)
		}
		fail("null for " + t.String())
	}
	if e := in.atlasFor(t); e != nil {
		if e.IsStruct {
			if doc.Ctor != "map" {
				fail("expected a map for " + t.String())
			}
			st := t.Underlying().(*types.Struct)
			out := zero(t)
			fs := out.R.([]Value)
			for i := 0; i+1 < len(doc.Args); i += 2 {
				key := doc.Args[i].(string)
				var fld *atlasField
				for j := range e.Fields {
					if e.Fields[j].Serial == key {
						fld = &e.Fields[j]
					}
				}
				if fld == nil {
					fail("unknown key " + key)
				}
				for k := 0; k < st.NumFields(); k++ {
					if st.Field(k).Name() == fld.GoName {
						fs[k] = in.cborDecode(doc.Args[i+1].(*OTerm), st.Field(k).Type())
					}
				}
			}
			return out
		}
		if e.Unmarshal.R != nil {
			d := doc
			if e.Tagged {
				if doc.Ctor != "tag" || doc.Args[0].(int) != e.Tag {
					fail("expected tag")
				}
				d = doc.Args[1].(*OTerm)
			}
			pt := e.Unmarshal.R.(*Closure).Fn.Signature.Params().At(0).Type()
			arg := in.cborDecode(d, pt)
			res := in.CallSync(e.Unmarshal, []Value{arg})
			tu := res.R.([]Value)
			if tu[1].R != nil {
				panic(cborErr{tu[1]})
			}
			return tu[0]
		}
	}
	switch u := t.Underlying().(type) {
	case *types.Basic:
		switch {
		case u.Info()&types.IsString != 0:
			if doc.Ctor != "str" {
				fail("expected string")
			}
			return doc.Args[0].(Value)
		case u.Info()&types.IsBoolean != 0:
			if doc.Ctor != "bool" {
				fail("expected bool")
			}
			return doc.Args[0].(Value)
		case u.Info()&types.IsInteger != 0:
			if doc.Ctor != "int" {
				fail("expected integer")
			}
			return in.convert(types.Typ[types.Int64], t, doc.Args[0].(Value))
		}
	case *types.Pointer:
		p := new(Value)
		*p = in.cborDecode(doc, u.Elem())
		return Value{K: KPtr, R: p}
	case *types.Interface:
		fail("generic decoding into interface{} is not modelled")
	case *types.Slice:
		if w, _, ok := intInfo(u.Elem()); ok && w == 8 {
			if doc.Ctor != "bytes" {
				fail("expected bytes")
			}
			return in.unmsg(doc.Args[0])
		}
		if doc.Ctor != "list" {
			fail("expected list")
		}
		out := make([]Value, len(doc.Args))
		for i, a := range doc.Args {
			out[i] = in.cborDecode(a.(*OTerm), u.Elem())
		}
		return Value{K: KSlice, R: &SliceV{S: out}}
	}
	fail("cannot decode " + doc.Ctor + " into " + t.String())
	return Value{}
}

func (in *Interp) tryDecode(doc *OTerm, t types.Type) (v Value, err Value) {
	defer func() {
		if r := recover(); r != nil {
			if ce, ok := r.(cborErr); ok {
				v, err = Value{}, ce.err
				return
			}
			panic(r)
		}
	}()
	return in.cborDecode(doc, t), Value{K: KIface}
}

func docOfBytes(v Value) (*OTerm, bool) {
	t, ok := opaqueOfBytes(v)
	if !ok || t.Ctor != "cbor" {
		return nil, false
	}
	return t.Args[0].(*OTerm), true
}

func (in *Interp) cborMarshalIface(obj Value) Value {
	if obj.R == nil {
		return tuple(opqBytes(ot("cbor", ot("null"))), nilErr)
	}
	iv := obj.R.(*IfaceV)
	doc, err := in.tryEncode(iv.T, iv.V)
	if err.R != nil {
		return tuple(Value{K: KSlice}, err)
	}
	return tuple(opqBytes(ot("cbor", doc)), nilErr)
}

func (in *Interp) cborUnmarshalInto(raw, target Value) Value {
	doc, ok := docOfBytes(raw)
	if !ok {
		return in.newErr("cbor: not a CBOR document", Value{})
	}
	if target.R == nil {
		return in.newErr("cbor: nil target", Value{})
	}
	iv := target.R.(*IfaceV)
	pt, ok := iv.T.Underlying().(*types.Pointer)
	if !ok || iv.V.R == nil {
		return in.newErr("cbor: target is not a pointer", Value{})
	}
	v, err := in.tryDecode(doc, pt.Elem())
	if err.R != nil {
		return err
	}
	*(iv.V.R.(*Value)) = v
	return nilErr
}

func init() {
	const at = "github.com/polydawn/refmt/obj/atlas."
	const cn = "github.com/ipfs/go-ipld-cbor."
	const enc = "github.com/ipfs/go-ipld-cbor/encoding."
	self := func(in *Interp, fr *Frame, a []Value) (Value, bool) { return a[0], true }
	ix := map[string]ixFn{
		at + "BuildEntry": func(in *Interp, fr *Frame, a []Value) (Value, bool) {
			iv := a[0].R.(*IfaceV)
			return builderValue(&atlasEntry{T: iv.T}), true
		},
		"(*" + at + "BuilderCore).StructMap": func(in *Interp, fr *Frame, a []Value) (Value, bool) {
			builderOf(a[0]).IsStruct = true
			return a[0], true
		},
		"(*" + at + "BuilderCore).Transform": self,
		"(*" + at + "BuilderCore).UseTag": func(in *Interp, fr *Frame, a []Value) (Value, bool) {
			e := builderOf(a[0])
			e.Tagged, e.Tag = true, int(sextW(a[1].N, 64))
			return a[0], true
		},
		"(*" + at + "BuilderStructMap).AddField": func(in *Interp, fr *Frame, a []Value) (Value, bool) {
			e := builderOf(a[0])
			m := a[2].R.([]Value) // StructMapEntry{SerialName, Ignore, ReflectRoute, Type, tagged, OmitEmpty}
			e.Fields = append(e.Fields, atlasField{GoName: concStrArg(a[1]), Serial: concStrArg(m[0]), OmitEmpty: m[5].N == 1})
			return a[0], true
		},
		"(*" + at + "BuilderStructMap).Complete":  func(in *Interp, fr *Frame, a []Value) (Value, bool) { return in.atlasComplete(a[0]), true },
		"(*" + at + "BuilderTransform).Complete":  func(in *Interp, fr *Frame, a []Value) (Value, bool) { return in.atlasComplete(a[0]), true },
		"(*" + at + "BuilderTransform).TransformMarshal": func(in *Interp, fr *Frame, a []Value) (Value, bool) {
			builderOf(a[0]).Marshal = a[1]
			return a[0], true
		},
		"(*" + at + "BuilderTransform).TransformUnmarshal": func(in *Interp, fr *Frame, a []Value) (Value, bool) {
			builderOf(a[0]).Unmarshal = a[1]
			return a[0], true
		},
		at + "MakeMarshalTransformFunc": func(in *Interp, fr *Frame, a []Value) (Value, bool) {
			return tuple(a[0].R.(*IfaceV).V, Value{K: KIface}), true
		},
		at + "MakeUnmarshalTransformFunc": func(in *Interp, fr *Frame, a []Value) (Value, bool) {
			return tuple(a[0].R.(*IfaceV).V, Value{K: KIface}), true
		},
		at + "MustBuild": func(in *Interp, fr *Frame, a []Value) (Value, bool) {
			return Value{K: KOpaque, R: "atlas"}, true
		},
		"(" + at + "Atlas).WithMapMorphism": self,
		cn + "RegisterCborType": func(in *Interp, fr *Frame, a []Value) (Value, bool) { return Value{}, true },
		enc + "NewPooledMarshaller":   func(in *Interp, fr *Frame, a []Value) (Value, bool) { return Value{K: KOpaque, R: "marshaller"}, true },
		enc + "NewPooledUnmarshaller": func(in *Interp, fr *Frame, a []Value) (Value, bool) { return Value{K: KOpaque, R: "unmarshaller"}, true },
		"(*" + enc + "PooledMarshaller).Marshal": func(in *Interp, fr *Frame, a []Value) (Value, bool) {
			return in.cborMarshalIface(a[1]), true
		},
		"(*" + enc + "PooledUnmarshaller).Unmarshal": func(in *Interp, fr *Frame, a []Value) (Value, bool) {
			return in.cborUnmarshalInto(a[1], a[2]), true
		},
		cn + "WrapObject": func(in *Interp, fr *Frame, a []Value) (Value, bool) {
			r := in.cborMarshalIface(a[0]).R.([]Value)
			if r[1].R != nil {
				return tuple(Value{K: KPtr}, r[1]), true
			}
			doc, _ := docOfBytes(r[0])
			return tuple(Value{K: KPtr, R: &Value{K: KOpaque, R: &cborNode{doc: doc}}}, nilErr), true
		},
		cn + "DecodeInto": func(in *Interp, fr *Frame, a []Value) (Value, bool) {
			return in.cborUnmarshalInto(a[0], a[1]), true
		},
		"(*" + cn + "Node).Cid": func(in *Interp, fr *Frame, a []Value) (Value, bool) {
			return in.cidOfDoc(a[0].R.(*Value).R.(*cborNode).doc), true
		},
		"(*" + cn + "Node).RawData": func(in *Interp, fr *Frame, a []Value) (Value, bool) {
			return opqBytes(ot("cbor", a[0].R.(*Value).R.(*cborNode).doc)), true
		},
	}
	for k, f := range ix {
		intrinsics[k] = f
	}
}

func (in *Interp) atlasComplete(b Value) Value {
	e := builderOf(b)
	in.atlas[typeKey(e.T)] = e
	return b
}

var _ = ssa.NewProgram

// ---- inspection of stored blocks (C18) ----

// docLinks: the traversable links (tag 42) of a document, in document order.
func (in *Interp) docLinks(d *OTerm, out *[]Value) {
	if d.Ctor == "tag" && d.Args[0].(int) == 42 {
		// the link bytes are 0x00 ++ cid bytes (castCidToBytes)
		if b, ok := d.Args[1].(*OTerm); ok && b.Ctor == "bytes" {
			if v, ok := b.Args[0].(Value); ok && v.R != nil {
				cells := v.R.(*SliceV).S
				if len(cells) >= 2 {
					r := in.cidFromBytes(Value{K: KSlice, R: &SliceV{S: cells[1:]}}).R.([]Value)
					if r[1].R == nil {
						*out = append(*out, r[0])
					}
				}
			}
		}
		return
	}
	for _, a := range d.Args {
		if t, ok := a.(*OTerm); ok {
			in.docLinks(t, out)
		}
	}
}

// termContains: does the needle (an opaque unit) occur in the clear inside t? Sealed boxes and digests hide
// their content (ideal encryption / hashing).
func (in *Interp) termContains(t *OTerm, needle *OTerm) bool {
	if t.Ctor == "seal" || t.Ctor == "sha3-256" || t.Ctor == "sig" {
		return false
	}
	if eq := in.otermEq(t, needle); eq.IsConst() && eq.Val == 1 {
		return true
	}
	for _, a := range t.Args {
		switch x := a.(type) {
		case *OTerm:
			if in.termContains(x, needle) {
				return true
			}
		case *Atom:
			if needle.Ctor == "atom" && len(needle.Args) > 0 && needle.Args[0] == interface{}(x) {
				return true
			}
		case Value:
			if in.valueContains(x, needle) {
				return true
			}
		}
	}
	return false
}

func (in *Interp) valueContains(v Value, needle *OTerm) bool {
	var units []ropeUnit
	switch v.K {
	case KStr:
		units = in.ropeUnits(v)
	case KSlice:
		units = in.byteUnits(v)
	}
	for _, u := range units {
		if u.o != nil && in.termContains(u.o, needle) {
			return true
		}
	}
	return false
}

func init() {
	intrinsics["(*github.com/ipfs/go-ipld-cbor.Node).Links"] = func(in *Interp, fr *Frame, a []Value) (Value, bool) {
		var cs []Value
		in.docLinks(a[0].R.(*Value).R.(*cborNode).doc, &cs)
		out := make([]Value, len(cs))
		for i, c := range cs {
			l := &Value{K: KStruct, R: []Value{mkStr(""), mkInt(0, 64), c}} // format.Link{Name, Size, Cid}
			out[i] = Value{K: KPtr, R: l}
		}
		return Value{K: KSlice, R: &SliceV{S: out}}, true
	}
	// bytes.Contains on an opaque document: structural search for an opaque needle (an identifier's bytes/text)
	intrinsics["bytes.Contains"] = func(in *Interp, fr *Frame, a []Value) (Value, bool) {
		hay, hok := opaqueOfBytes(a[0])
		nu := in.byteUnits(a[1])
		if hok && len(nu) == 1 && nu[0].o != nil {
			return mkBool(in.termContains(hay, nu[0].o)), true
		}
		if hb, ok1 := concBytes(a[0]); ok1 {
			if nb, ok2 := concBytes(a[1]); ok2 {
				return mkBool(bytesContains(hb, nb)), true
			}
		}
		if len(nu) == 1 && nu[0].o != nil {
			return mkBool(in.valueContains(a[0], nu[0].o)), true
		}
		unsupported("bytes.Contains on these operands")
		return Value{}, true
	}
}

func bytesContains(h, n []byte) bool {
	for i := 0; i+len(n) <= len(h); i++ {
		if string(h[i:i+len(n)]) == string(n) {
			return true
		}
	}
	return false
}

// ---- merkledag.ProtoNode (legacy protobuf codec): an opaque container of its data bytes ----

func (in *Interp) protoData(p Value) *Value {
	k := p.R.(*Value)
	if d, ok := in.side[k].(*Value); ok {
		return d
	}
	d := &Value{K: KSlice}
	in.side[k] = d
	return d
}

func init() {
	const md = "github.com/ipfs/go-merkledag."
	ix := map[string]ixFn{
		"(*" + md + "ProtoNode).SetData": func(in *Interp, fr *Frame, a []Value) (Value, bool) {
			*in.protoData(a[0]) = a[1]
			return Value{}, true
		},
		"(*" + md + "ProtoNode).Data": func(in *Interp, fr *Frame, a []Value) (Value, bool) {
			return *in.protoData(a[0]), true
		},
		"(*" + md + "ProtoNode).RawData": func(in *Interp, fr *Frame, a []Value) (Value, bool) {
			return opqBytes(ot("pbraw", in.msgArg(*in.protoData(a[0])))), true
		},
		"(*" + md + "ProtoNode).Cid": func(in *Interp, fr *Frame, a []Value) (Value, bool) {
			return in.cidOfDoc(ot("pbnode", in.msgArg(*in.protoData(a[0])))), true
		},
		"(*" + md + "ProtoNode).Links": func(in *Interp, fr *Frame, a []Value) (Value, bool) {
			return Value{K: KSlice}, true
		},
		md + "DecodeProtobuf": func(in *Interp, fr *Frame, a []Value) (Value, bool) {
			t, ok := opaqueOfBytes(a[0])
			if !ok || t.Ctor != "pbraw" {
				return tuple(Value{K: KPtr}, in.newErr("merkledag: not a protobuf node", Value{})), true
			}
			p := new(Value)
			*p = zero(in.namedType("github.com/ipfs/go-merkledag", "ProtoNode"))
			node := Value{K: KPtr, R: p}
			*in.protoData(node) = in.unmsg(t.Args[0])
			return tuple(node, nilErr), true
		},
	}
	for k, f := range ix {
		intrinsics[k] = f
	}
}
