package interp

import (
	"fmt"
	"go/constant"
	"go/token"
	"go/types"
	"strconv"
	"strings"

	"gosx/smt"

	"golang.org/x/tools/go/ssa"
)

type Stats struct {
	SchedPoints                                                                int
	Instrs, Paths, Decisions, BranchQueries, AssertQueries, ModelHits, Unknown int
	Obligations, Discharged                                                    int
}

type fnInfo struct {
	idx  map[ssa.Value]int
	n    int
	code [][]instrInfo // per block, per instruction: operand registers resolved once
}

type opRef struct {
	v   ssa.Value
	idx int
}

type instrInfo struct {
	ops []opRef
	dst int
}

// fallThrough is returned by an intrinsic that wants the real function body to be interpreted instead.
type fallThroughT struct{}

var fallThrough = &fallThroughT{}

func declined() (Value, bool) { return Value{K: KInvalid, R: fallThrough}, true }

type methKey struct {
	t types.Type
	m *types.Func
}

type deferred struct {
	fn   Value
	args []Value
}

type Frame struct {
	Fn            *ssa.Function
	info          *fnInfo
	regs          []Value
	blk           *ssa.BasicBlock
	prev          *ssa.BasicBlock
	pc            int
	defers        []deferred
	caller        *Frame
	dst           ssa.Value // call instruction in caller receiving the result
	result        Value
	panicking     bool
	panicVal      Value
	recovered     bool
	runningDefers bool
	env           []Value
	native        func(res Value) // for nested calls from intrinsics
	cur           []opRef         // operand registers of the instruction being executed
	curDst        int
	curIns        ssa.Value
}

type G struct {
	condWaiting, condSignalled bool
	id                         int
	top                        *Frame
	done                       bool
	block                      string
	psite                      string
	gateKey                    string // set by vx.Gate; recorded when the goroutine next acquires a lock
	vcl                        vclock // vector clock (race detector)
	preempts                   int
	path                       string // structural identity: parent's path + index among the parent's spawns from module code
	spawns                     int
	blockedRec                 bool // a "blocked" event was recorded for the acquire this goroutine is waiting in
}

// SyncEvent: one acquire-type operation issued from module code (the code under test or the harness), in the
// order the scheduler executed them. Blocked: the call did not return (the goroutine waits inside it);
// Resume: the earlier blocked call of this goroutine returned.
type SyncEvent struct {
	G       string `json:"g"`
	Op      string `json:"op"`
	Blocked bool   `json:"blocked,omitempty"`
	Resume  bool   `json:"resume,omitempty"`
}

func (in *Interp) recordSync(fr *Frame, op string, acquired bool) {
	if fr == nil || fr.Fn == nil || !strings.HasPrefix(fnPkgPath(fr.Fn), "berty.tech/go-ipfs-log") {
		return
	}
	g := in.cur
	if g == nil {
		return
	}
	if !acquired {
		if g.blockedRec {
			return
		}
		g.blockedRec = true
		in.syncTrace = append(in.syncTrace, SyncEvent{G: g.path, Op: op, Blocked: true})
		return
	}
	in.syncTrace = append(in.syncTrace, SyncEvent{G: g.path, Op: op, Resume: g.blockedRec})
	g.blockedRec = false
}

type Program struct {
	Prog  *ssa.Program
	infos map[*ssa.Function]*fnInfo // filled lazily under mu
}

type Interp struct {
	Prog         *ssa.Program
	Ctx          *smt.Ctx
	Sol          *smt.Solver
	P            *PathState
	Stats        Stats
	Violations   []Violation
	globals      map[*ssa.Global]*Value
	infos        map[*ssa.Function]*fnInfo
	gs           []*G
	cur          *G
	side         map[*Value]interface{} // sync object state keyed by address
	atoms        int
	atomTab      map[string]*Atom
	atomList     []*Atom
	Obs          []string
	Cover        map[string]bool
	FuncsEntered map[*ssa.Function]int
	Trace        bool
	ranks        []*smt.Term
	nameCnt      map[string]int
	yieldNow     bool
	PreemptBound int
	HarnessName  string
	Params       map[string]int
	inputs       []namedInput
	obs          []obsRec
	schedTrace   []int
	syncTrace    []SyncEvent
	mapOrder     map[*ssa.Range]bool // per range statement of non-harness code: iterate maps in reverse insertion order
	gateOrder    []string
	sigTags      []string
	ixCache      map[*ssa.Function]*Intrinsic
	methCache    map[methKey]Value
	Explore      bool
	RaceDetect   bool
	Unwind       int
	StubsHit     map[string]int
	initMode     bool
	freeFrames   []*Frame
	inInitTry    bool
	ctxs         []*ctxSt
	exploreOff   bool
	TimerAnywhere bool
	race         raceState
	keyCount     int
	negKeys      map[int]int
	repCapUsed   bool
	roCells      map[*Value]bool
	pkgInited    map[*ssa.Package]bool
	atlas        map[string]*atlasEntry
	CrossSink    func(script, expect string)
}

func NewInterp(prog *ssa.Program, ctx *smt.Ctx, sol *smt.Solver) *Interp {
	return &Interp{Prog: prog, Ctx: ctx, Sol: sol, infos: map[*ssa.Function]*fnInfo{}, FuncsEntered: map[*ssa.Function]int{}, ixCache: map[*ssa.Function]*Intrinsic{}, methCache: map[methKey]Value{}}
}

func (in *Interp) resetRun() {
	in.globals = map[*ssa.Global]*Value{}
	in.gs = nil
	in.side = map[*Value]interface{}{}
	in.atoms = 0
	in.atomTab = map[string]*Atom{}
	in.atomList = nil
	in.Obs = nil
	in.Cover = map[string]bool{}
	in.ranks = nil
	in.nameCnt = map[string]int{}
	in.ctxs = nil
	in.pkgInited = map[*ssa.Package]bool{}
	in.atlas = map[string]*atlasEntry{}
	in.keyCount = 0
	in.negKeys = nil
	in.repCapUsed = false
	in.roCells = nil
	in.race = raceState{cells: map[interface{}]*shadow{}, objVC: map[interface{}]*vclock{}, reported: map[string]bool{}}
	in.exploreOff = false
	in.inputs = nil
	in.obs = nil
	in.schedTrace = nil
	in.syncTrace = nil
	in.mapOrder = nil
	in.gateOrder = nil
	in.sigTags = nil
	if in.StubsHit == nil {
		in.StubsHit = map[string]int{}
	}
}

func (in *Interp) info(fn *ssa.Function) *fnInfo {
	if fi, ok := in.infos[fn]; ok {
		return fi
	}
	fi := &fnInfo{idx: map[ssa.Value]int{}}
	add := func(v ssa.Value) { fi.idx[v] = fi.n; fi.n++ }
	for _, p := range fn.Params {
		add(p)
	}
	for _, fv := range fn.FreeVars {
		add(fv)
	}
	for _, b := range fn.Blocks {
		for _, ins := range b.Instrs {
			if v, ok := ins.(ssa.Value); ok {
				add(v)
			}
		}
	}
	fi.code = make([][]instrInfo, len(fn.Blocks))
	var rands []*ssa.Value
	for bi, b := range fn.Blocks {
		fi.code[bi] = make([]instrInfo, len(b.Instrs))
		for ii, ins := range b.Instrs {
			ci := &fi.code[bi][ii]
			ci.dst = -1
			if v, ok := ins.(ssa.Value); ok {
				ci.dst = fi.idx[v]
			}
			rands = ins.Operands(rands[:0])
			for _, r := range rands {
				if r == nil || *r == nil {
					continue
				}
				if i, ok := fi.idx[*r]; ok {
					ci.ops = append(ci.ops, opRef{*r, i})
				}
			}
		}
	}
	in.infos[fn] = fi
	return fi
}

func unsupported(f string, a ...interface{}) {
	panic(inconclusive{"unsupported: " + fmt.Sprintf(f, a...)})
}

// lazyInitPkgs: interpreted standard-library packages whose package-level tables must hold their real
// initial values; their initialiser is executed (own globals only) when one of their globals is first read.
var lazyInitPkgs = map[string]bool{"unicode/utf8": true, "unicode": true, "strconv": true, "strings": true, "bytes": true,
	"sort": true, "path": true, "math/bits": true, "encoding/hex": true, "container/heap": true, "container/list": true, "unicode/utf16": true, "encoding/base64": true, "encoding/binary": true,
	"github.com/mr-tron/base58/base58": true, "github.com/multiformats/go-base32": true, "github.com/multiformats/go-base36": true, "github.com/multiformats/go-multibase": true, "encoding/base32": true, "github.com/multiformats/go-varint": true}

func (in *Interp) ensurePkgInit(g *ssa.Global) {
	if g.Pkg == nil || in.isModulePkg(g.Pkg) || !lazyInitPkgs[g.Pkg.Pkg.Path()] || in.pkgInited[g.Pkg] || in.cur == nil {
		return
	}
	in.pkgInited[g.Pkg] = true
	g.Pkg.Build()
	initFn := g.Pkg.Func("init")
	if initFn == nil || initFn.Blocks == nil {
		return
	}
	savedMode := in.initMode
	in.initMode = true
	gr := in.cur
	saved := gr.top
	marker := &Frame{caller: saved}
	gr.top = marker
	in.pushFrame(gr, initFn, nil, nil, nil)
	for gr.top != marker {
		in.step(gr)
	}
	gr.top = saved
	in.initMode = savedMode
}

func (in *Interp) global(g *ssa.Global) *Value {
	if p, ok := in.globals[g]; ok {
		return p
	}
	in.ensurePkgInit(g)
	if p, ok := in.globals[g]; ok {
		return p
	}
	p := new(Value)
	elem := g.Type().(*types.Pointer).Elem()
	*p = zero(elem)
	// external globals of type error: distinct opaque non-nil errors
	if types.Identical(elem, types.Universe.Lookup("error").Type()) && (g.Pkg == nil || !in.isModulePkg(g.Pkg)) {
		*p = Value{K: KIface, R: &IfaceV{T: errType, V: Value{K: KOpaque, R: &OpaqueErr{Msg: g.Pkg.Pkg.Path() + "." + g.Name()}}}}
	}
	in.globals[g] = p
	return p
}

var errType = types.NewNamed(types.NewTypeName(token.NoPos, nil, "opaqueError", nil), types.NewStruct(nil, nil), nil)

type OpaqueErr struct {
	Msg     string
	Inner   Value
	Wrapped []Value
}

func (in *Interp) isModulePkg(p *ssa.Package) bool {
	return strings.HasPrefix(p.Pkg.Path(), "berty.tech/go-ipfs-log")
}

func (in *Interp) constVal(c *ssa.Const) Value {
	t := c.Type()
	if c.Value == nil {
		return zero(t)
	}
	if w, signed, ok := intInfo(t); ok {
		if signed {
			i, _ := constant.Int64Val(constant.ToInt(c.Value))
			return mkInt(uint64(i), w)
		}
		u, _ := constant.Uint64Val(constant.ToInt(c.Value))
		return mkInt(u, w)
	}
	if b, ok := t.Underlying().(*types.Basic); ok {
		switch {
		case b.Info()&types.IsBoolean != 0:
			return mkBool(constant.BoolVal(c.Value))
		case b.Info()&types.IsString != 0:
			return mkStr(constant.StringVal(c.Value))
		case b.Info()&types.IsFloat != 0:
			if f, ok := constant.Float64Val(c.Value); ok && b.Kind() != types.Float32 {
				return in.floatConst(f)
			}
			return Value{K: KOpaque, R: poison("float const")}
		}
	}
	unsupported("const %v of %v", c, t)
	return Value{}
}

func (in *Interp) get(fr *Frame, v ssa.Value) Value {
	switch v := v.(type) {
	case *ssa.Const:
		return in.constVal(v)
	case *ssa.Global:
		return Value{K: KPtr, R: in.global(v)}
	case *ssa.Function:
		return Value{K: KFunc, R: &Closure{Fn: v}}
	case *ssa.Builtin:
		return Value{K: KFunc, R: v}
	}
	// fast path: the value is an operand of the instruction being executed (pointer comparison, no hashing)
	for k := range fr.cur {
		if fr.cur[k].v == v {
			return fr.regs[fr.cur[k].idx]
		}
	}
	i, ok := fr.info.idx[v]
	if !ok {
		panic(fmt.Sprintf("no register for %s in %s", v.Name(), fr.Fn))
	}
	return fr.regs[i]
}

func (in *Interp) set(fr *Frame, v ssa.Value, x Value) {
	if fr.curDst >= 0 && fr.curIns == v {
		fr.regs[fr.curDst] = x
		return
	}
	fr.regs[fr.info.idx[v]] = x
}

// ---- frames / calls ----

func (in *Interp) pushFrame(g *G, fn *ssa.Function, args []Value, env []Value, dst ssa.Value) *Frame {
	if fn.Blocks == nil {
		unsupported("call of function without body: %s", fn.String())
	}
	in.FuncsEntered[fn]++
	fi := in.info(fn)
	var fr *Frame
	if n := len(in.freeFrames); n > 0 {
		// recycle a frame (and its register file) that has returned
		fr = in.freeFrames[n-1]
		in.freeFrames = in.freeFrames[:n-1]
		regs := fr.regs
		*fr = Frame{}
		if cap(regs) >= fi.n {
			regs = regs[:fi.n]
			clear(regs)
		} else {
			regs = make([]Value, fi.n)
		}
		fr.regs = regs
		fr.Fn, fr.info, fr.blk, fr.caller, fr.dst = fn, fi, fn.Blocks[0], g.top, dst
	} else {
		fr = &Frame{Fn: fn, info: fi, regs: make([]Value, fi.n), blk: fn.Blocks[0], caller: g.top, dst: dst}
	}
	for i, p := range fn.Params {
		fr.regs[fi.idx[p]] = args[i]
	}
	for i, fv := range fn.FreeVars {
		fr.regs[fi.idx[fv]] = env[i]
	}
	g.top = fr
	return fr
}

// callValue invokes fnv with args in goroutine g. Returns (result, done). If done is
// false a frame was pushed and the result will be delivered to dst later.
func (in *Interp) callValue(g *G, fr *Frame, fnv Value, args []Value, dst ssa.Value) (Value, bool, bool) {
	switch f := fnv.R.(type) {
	case *Closure:
		if ix := in.lookupIntrinsic(f.Fn); ix != nil {
			res, ok := ix.F(in, fr, args)
			if res.K != KInvalid || res.R != interface{}(fallThrough) {
				if acquireOps[ix.Name] {
					in.recordSync(fr, ix.Name, ok)
				}
				return res, true, ok
			}
			// the intrinsic declined (e.g. all arguments concrete): interpret the real function
		}
		if in.initMode && !in.inInitTry && !strings.HasPrefix(fnPkgPath(f.Fn), "berty.tech/go-ipfs-log") {
			// package initialisers: external code is interpreted when possible (e.g. lru.New, list.New);
			// whatever cannot be executed yields poison (INCONCLUSIVE only if the value is ever used)
			if f.Fn.Blocks != nil || func() bool { in.lookupIntrinsic(f.Fn); return f.Fn.Blocks != nil }() {
				var out Value
				okTry := func() (ok bool) {
					in.inInitTry = true
					saved := g.top
					defer func() {
						in.inInitTry = false
						if r := recover(); r != nil {
							if _, isAbort := r.(abortPath); isAbort {
								panic(r)
							}
							g.top = saved // unsupported / engine limitation inside external init code: poison
							ok = false
						}
					}()
					out = in.CallSync(fnv, args)
					return true
				}()
				if okTry {
					return out, true, true
				}
			}
			res := f.Fn.Signature.Results()
			switch res.Len() {
			case 0:
				return Value{}, true, true
			case 1:
				return Value{K: KOpaque, R: poison("init:" + f.Fn.String())}, true, true
			}
			vs := make([]Value, res.Len())
			for i := range vs {
				vs[i] = Value{K: KOpaque, R: poison("init:" + f.Fn.String())}
			}
			return Value{K: KTuple, R: vs}, true, true
		}
		in.pushFrame(g, f.Fn, args, f.Env, dst)
		return Value{}, false, true
	case *Intrinsic:
		res, ok := f.F(in, fr, args)
		return res, true, ok
	case *BoundMethod:
		return in.callValue(g, fr, Value{K: KFunc, R: &Closure{Fn: f.Fn}}, append([]Value{f.Recv}, args...), dst)
	case nil:
		in.goPanic(g, "call of nil function")
		return Value{}, true, true
	}
	unsupported("call of %T", fnv.R)
	return Value{}, true, true
}

// CallSync runs fn to completion in a nested loop (used by intrinsics and the driver).
func (in *Interp) CallSync(fnv Value, args []Value) Value {
	g := in.cur
	saved := g.top
	marker := &Frame{caller: saved}
	g.top = marker
	res, done, ok := in.callValue(g, marker, fnv, args, nil)
	if !ok {
		unsupported("blocking call inside CallSync")
	}
	if done {
		g.top = saved
		return res
	}
	for g.top != marker {
		g.block = ""
		in.step(g)
		if g.done {
			panic(inconclusive{"goroutine ended inside CallSync"})
		}
		if g.block != "" {
			// a deferred function / call-back that blocks cannot be suspended by this interpreter
			panic(inconclusive{"blocking operation (" + g.block + ") inside a synchronous call (deferred function or call-back)"})
		}
	}
	g.top = saved
	if marker.panicking {
		in.goPanicVal(g, marker.panicVal)
	}
	return marker.result
}

// ---- panics ----

type GoPanic struct{ Msg string }

func (in *Interp) goPanic(g *G, msg string) {
	in.goPanicVal(g, Value{K: KIface, R: &IfaceV{T: errType, V: Value{K: KOpaque, R: &GoPanic{Msg: msg}}}})
}

func (in *Interp) goPanicVal(g *G, v Value) {
	if g.psite == "" {
		g.psite = in.panicSite(g)
	}
	fr := g.top
	fr.panicking = true
	fr.panicVal = v
	in.unwind(g)
}

// unwind: run defers of the top frame, then propagate.
func (in *Interp) unwind(g *G) {
	for {
		fr := g.top
		if fr.Fn == nil { // marker frame of CallSync or root
			return
		}
		if len(fr.defers) > 0 {
			d := fr.defers[len(fr.defers)-1]
			fr.defers = fr.defers[:len(fr.defers)-1]
			fr.runningDefers = true
			in.CallSync(d.fn, d.args)
			fr.runningDefers = false
			if !fr.panicking { // recovered
				in.finishReturn(g, fr, in.recoverResult(fr))
				return
			}
			continue
		}
		// pop frame, propagate panic to caller
		g.top = fr.caller
		if g.top == nil {
			panic(goroutinePanic{g, fr.panicVal, g.psite})
		}
		g.top.panicking = true
		g.top.panicVal = fr.panicVal
		if g.top.Fn == nil { // marker: stop here, CallSync re-raises
			return
		}
	}
}

type goroutinePanic struct {
	g    *G
	v    Value
	site string
}

var resumeInRecover = &struct{ x int }{}

func (in *Interp) recoverResult(fr *Frame) Value {
	// named results are read from the Recover block in real SSA; approximate: zero results
	if fr.Fn.Recover != nil {
		// execute recover block synchronously: it only loads named results and returns
		fr.blk = fr.Fn.Recover
		fr.pc = 0
		return Value{K: KInvalid, R: resumeInRecover}
	}
	res := fr.Fn.Signature.Results()
	switch res.Len() {
	case 0:
		return Value{}
	case 1:
		return zero(res.At(0).Type())
	}
	return zero(res)
}

func (in *Interp) finishReturn(g *G, fr *Frame, res Value) {
	if res.K == KInvalid && res.R == interface{}(resumeInRecover) {
		return // continue executing the recover block in this frame
	}
	g.top = fr.caller
	if g.top == nil {
		g.done = true
		return
	}
	if g.top.Fn == nil { // marker
		g.top.result = res
		return
	}
	if fr.dst != nil {
		in.set(g.top, fr.dst, res)
	}
}

// ---- main step ----

func (in *Interp) step(g *G) {
	fr := g.top
	ins := fr.blk.Instrs[fr.pc]
	ci := &fr.info.code[fr.blk.Index][fr.pc]
	fr.cur, fr.curDst = ci.ops, ci.dst
	fr.curIns, _ = ins.(ssa.Value)
	in.Stats.Instrs++
	if in.Trace {
		fmt.Printf("[g%d] %s: %s\n", g.id, fr.Fn.Name(), ins)
	}
	fr.pc++
	switch ins := ins.(type) {
	case *ssa.DebugRef:
	case *ssa.UnOp:
		in.set(fr, ins, in.unop(g, fr, ins))
	case *ssa.BinOp:
		in.set(fr, ins, in.binop(g, ins.Op, ins.X.Type(), in.get(fr, ins.X), in.get(fr, ins.Y)))
	case *ssa.Call:
		in.doCall(g, fr, &ins.Call, ins)
	case *ssa.ChangeInterface:
		in.set(fr, ins, in.get(fr, ins.X))
	case *ssa.ChangeType:
		in.set(fr, ins, in.get(fr, ins.X))
	case *ssa.Convert:
		in.set(fr, ins, in.convert(ins.X.Type(), ins.Type(), in.get(fr, ins.X)))
	case *ssa.SliceToArrayPointer:
		// the array shares the slice's cells: writes through either are seen through the other
		x := in.get(fr, ins.X)
		n := int(ins.Type().Underlying().(*types.Pointer).Elem().Underlying().(*types.Array).Len())
		var cells []Value
		if x.R != nil {
			cells = x.R.(*SliceV).S
		}
		if len(cells) < n {
			in.goPanic(g, fmt.Sprintf("cannot convert slice with length %d to array or pointer to array with length %d", len(cells), n))
			return
		}
		if x.R == nil {
			in.set(fr, ins, Value{K: KPtr}) // nil slice to pointer to zero-length array: nil
			break
		}
		in.set(fr, ins, Value{K: KPtr, R: &Value{K: KArray, R: cells[:n:n]}})
	case *ssa.MakeInterface:
		in.set(fr, ins, Value{K: KIface, R: &IfaceV{T: ins.X.Type(), V: copyVal(in.get(fr, ins.X))}})
	case *ssa.Extract:
		in.set(fr, ins, in.get(fr, ins.Tuple).R.([]Value)[ins.Index])
	case *ssa.Slice:
		in.set(fr, ins, in.sliceOp(g, fr, ins))
	case *ssa.Return:
		var res Value
		switch len(ins.Results) {
		case 0:
		case 1:
			res = copyVal(in.get(fr, ins.Results[0]))
		default:
			vs := make([]Value, len(ins.Results))
			for i, r := range ins.Results {
				vs[i] = copyVal(in.get(fr, r))
			}
			res = Value{K: KTuple, R: vs}
		}
		if fr.panicking && !fr.runningDefers {
			fr.panicking = false
		}
		in.finishReturn(g, fr, res)
		if g.top != fr && len(fr.defers) == 0 && len(in.freeFrames) < 256 {
			in.freeFrames = append(in.freeFrames, fr) // popped: nothing refers to the frame any more
		}
	case *ssa.RunDefers:
		for len(fr.defers) > 0 {
			d := fr.defers[len(fr.defers)-1]
			fr.defers = fr.defers[:len(fr.defers)-1]
			in.CallSync(d.fn, d.args)
		}
	case *ssa.Panic:
		in.goPanicVal(g, in.get(fr, ins.X))
	case *ssa.Send:
		ch := in.get(fr, ins.Chan).R.(*ChanV)
		if ch.closed {
			in.goPanic(g, "send on closed channel")
			return
		}
		if len(ch.buf) >= ch.cap {
			if p := in.chanPartner(g, ch, false); ch.cap == 0 && p != nil {
				in.handOver(ch, p, copyVal(in.get(fr, ins.X)))
				return
			}
			fr.pc--
			g.block = "chan send"
			return
		}
		ch.buf = append(ch.buf, copyVal(in.get(fr, ins.X)))
		in.raceRelease(ch)
	case *ssa.Store:
		p := in.get(fr, ins.Addr)
		if p.R == nil {
			in.goPanic(g, "nil pointer dereference (store)")
			return
		}
		if in.roCells != nil && in.roCells[p.R.(*Value)] {
			unsupported("store into a byte of an opaque byte string")
		}
		in.raceTouch(p.R.(*Value), true)
		*(p.R.(*Value)) = copyVal(in.get(fr, ins.Val))
	case *ssa.If:
		c := in.get(fr, ins.Cond)
		var t bool
		if c.R != nil {
			t = in.Branch(c.R.(*smt.Term), fr.Fn.Name())
		} else {
			t = c.N == 1
		}
		succ := 1
		if t {
			succ = 0
		}
		fr.prev, fr.blk, fr.pc = fr.blk, fr.blk.Succs[succ], 0
	case *ssa.Jump:
		fr.prev, fr.blk, fr.pc = fr.blk, fr.blk.Succs[0], 0
	case *ssa.Defer:
		fnv, args := in.prepareCall(g, fr, &ins.Call)
		fr.defers = append(fr.defers, deferred{fnv, args})
	case *ssa.Go:
		fnv, args := in.prepareCall(g, fr, &ins.Call)
		ng := &G{id: len(in.gs)}
		if strings.HasPrefix(fnPkgPath(fr.Fn), "berty.tech/go-ipfs-log") {
			ng.path = g.path + "." + strconv.Itoa(g.spawns)
			g.spawns++
		} else {
			ng.path = g.path + ".x"
		}
		in.gs = append(in.gs, ng)
		in.raceFork(g, ng)
		_, done, _ := in.callValue(ng, nil, fnv, args, nil)
		if done {
			ng.done = true
		}
	case *ssa.MakeChan:
		n := in.concIntT(in.get(fr, ins.Size), ins.Size.Type(), "chan size")
		in.set(fr, ins, Value{K: KChan, R: &ChanV{cap: int(n)}})
	case *ssa.Alloc:
		p := new(Value)
		*p = zero(ins.Type().(*types.Pointer).Elem())
		in.set(fr, ins, Value{K: KPtr, R: p})
	case *ssa.MakeSlice:
		el0 := ins.Type().Underlying().(*types.Slice).Elem()
		n, okN := in.makeSliceArg(g, fr, in.get(fr, ins.Len), ins.Len.Type(), el0, "len")
		if !okN {
			return
		}
		c := n
		if ins.Cap != ins.Len {
			var okC bool
			if c, okC = in.makeSliceArg(g, fr, in.get(fr, ins.Cap), ins.Cap.Type(), el0, "cap"); !okC {
				return
			}
		}
		if c < n {
			in.goPanic(g, "makeslice: cap out of range")
			return
		}
		s := make([]Value, n, c)
		el := ins.Type().Underlying().(*types.Slice).Elem()
		full := s[:c]
		for i := range full {
			full[i] = zero(el)
		}
		in.set(fr, ins, Value{K: KSlice, R: &SliceV{S: s}})
	case *ssa.MakeMap:
		in.set(fr, ins, Value{K: KMap, R: newMap()})
	case *ssa.Range:
		in.set(fr, ins, in.rangeInitAt(fr, ins, in.get(fr, ins.X)))
	case *ssa.Next:
		in.set(fr, ins, in.rangeNext(in.get(fr, ins.Iter), ins))
	case *ssa.FieldAddr:
		p := in.get(fr, ins.X)
		if p.R == nil {
			in.goPanic(g, "nil pointer dereference (field "+ins.X.Type().String()+")")
			return
		}
		if cell := p.R.(*Value); cell.K == KOpaque {
			if k, isKey := cell.R.(*keySt); isKey {
				// a parsed public key (btcec.PublicKey = {Curve, X, Y}): its coordinates are opaque big integers
				st := ins.X.Type().Underlying().(*types.Pointer).Elem().Underlying().(*types.Struct)
				name := st.Field(ins.Field).Name()
				if name == "X" || name == "Y" {
					coord := &Value{K: KPtr, R: &Value{K: KOpaque, R: &bigCoord{k: k.id, which: name}}}
					if in.roCells == nil {
						in.roCells = map[*Value]bool{}
					}
					in.roCells[coord] = true
					in.set(fr, ins, Value{K: KPtr, R: coord})
					return
				}
				unsupported("field %s of a parsed public key", name)
			}
		}
		in.set(fr, ins, Value{K: KPtr, R: &(p.R.(*Value).R.([]Value)[ins.Field])})
	case *ssa.Field:
		in.set(fr, ins, in.get(fr, ins.X).R.([]Value)[ins.Field])
	case *ssa.IndexAddr:
		in.indexAddr(g, fr, ins)
	case *ssa.Index:
		in.indexOp(g, fr, ins)
	case *ssa.Lookup:
		in.lookup(g, fr, ins)
	case *ssa.MapUpdate:
		m := in.get(fr, ins.Map)
		if m.R == nil {
			in.goPanic(g, "assignment to entry in nil map")
			return
		}
		k := in.get(fr, ins.Key)
		in.raceAccess(m.R.(*MapV), true)
		in.mapSet(g, m.R.(*MapV), k, copyVal(in.get(fr, ins.Value)))
	case *ssa.TypeAssert:
		in.typeAssert(g, fr, ins)
	case *ssa.MakeClosure:
		env := make([]Value, len(ins.Bindings))
		for i, b := range ins.Bindings {
			env[i] = in.get(fr, b)
		}
		in.set(fr, ins, Value{K: KFunc, R: &Closure{Fn: ins.Fn.(*ssa.Function), Env: env}})
	case *ssa.Phi:
		for i, pred := range fr.blk.Preds {
			if pred == fr.prev {
				in.set(fr, ins, in.get(fr, ins.Edges[i]))
				break
			}
		}
	case *ssa.Select:
		in.selectOp(g, fr, ins)
	default:
		unsupported("instruction %T", ins)
	}
}

// concIntT concretises an integer operand of static type t: unsigned types are zero-extended.
func (in *Interp) concIntT(v Value, t types.Type, site string) int64 {
	if _, signed, ok := intInfo(t); ok && !signed && v.W < 64 {
		if v.R != nil {
			return int64(in.Concretize(v.R.(*smt.Term), site) & (uint64(1)<<v.W - 1))
		}
		return int64(v.N & (uint64(1)<<v.W - 1))
	}
	return in.concInt(v, site)
}

// repCap is the capacity that stands for every symbolic capacity above 64 elements (make with a size that
// comes from the caller): nothing a bounded run does distinguishes capacities it never fills. Reading cap() of
// such a slice, or appending beyond 64 elements to one, makes the path inconclusive.
const repCap = 4099

// makeSliceArg evaluates the len or cap operand of make([]T, ...): out-of-range values panic as the runtime does
// (negative, or more than 2^48 bytes on linux/amd64); a symbolic value is split into "out of range", "large"
// (represented by repCap) and the small values, which are enumerated.
func (in *Interp) makeSliceArg(g *G, fr *Frame, v Value, t types.Type, el types.Type, what string) (int64, bool) {
	esz := sizes.Sizeof(el)
	limit := int64(1) << 48
	if esz > 0 {
		limit /= esz
	} else {
		limit = 1<<63 - 1
	}
	if v.R == nil {
		n := in.concIntT(v, t, "makeslice "+what)
		if n < 0 || n > limit {
			in.goPanic(g, "makeslice: "+what+" out of range")
			return 0, false
		}
		return n, true
	}
	c := in.Ctx
	x := v.R.(*smt.Term)
	if x.W < 64 {
		if _, signed, _ := intInfo(t); signed {
			x = c.SExt(x, 64)
		} else {
			x = c.ZExt(x, 64)
		}
	}
	bad := c.Or(c.Cmp(smt.OpSLt, x, c.BV(0, 64)), c.Cmp(smt.OpSLt, c.BV(uint64(limit), 64), x))
	if in.Branch(bad, "makeslice "+what+" out of range") {
		in.goPanic(g, "makeslice: "+what+" out of range")
		return 0, false
	}
	if in.Branch(c.Cmp(smt.OpSLt, c.BV(64, 64), x), "makeslice "+what+" large") {
		in.repCapUsed = true
		return repCap, true
	}
	return in.concIntT(v, t, "makeslice "+what), true
}

func (in *Interp) concInt(v Value, site string) int64 {
	if v.R != nil {
		return sextW(in.Concretize(v.R.(*smt.Term), site), v.W)
	}
	return sextW(v.N, v.W)
}

func (in *Interp) prepareCall(g *G, fr *Frame, call *ssa.CallCommon) (Value, []Value) {
	var args []Value
	var fnv Value
	if call.IsInvoke() {
		recv := in.get(fr, call.Value)
		if recv.R == nil {
			in.goPanic(g, "invoke on nil interface: "+call.Method.Name())
			return Value{}, nil
		}
		iv := recv.R.(*IfaceV)
		fnv = in.methodOf(iv.T, call.Method)
		args = append(args, iv.V)
	} else {
		fnv = in.get(fr, call.Value)
	}
	for _, a := range call.Args {
		args = append(args, copyVal(in.get(fr, a)))
	}
	return fnv, args
}

func (in *Interp) methodOf(t types.Type, m *types.Func) Value {
	if t == ctxType {
		return in.ctxMethod(m.Name())
	}
	if t == keyType {
		return in.keyMethod(m.Name())
	}
	if t == hashType {
		return in.hashMethod(m.Name())
	}
	if t == errType {
		return Value{K: KFunc, R: &Intrinsic{Name: "opaqueError." + m.Name(), F: func(in *Interp, fr *Frame, args []Value) (Value, bool) {
			return mkStr("<opaque error>"), true
		}}}
	}
	key := methKey{t, m}
	if v, ok := in.methCache[key]; ok {
		return v
	}
	sel := in.Prog.MethodSets.MethodSet(t).Lookup(m.Pkg(), m.Name())
	if sel == nil {
		unsupported("no method %s on %s", m.Name(), t)
	}
	fn := in.Prog.MethodValue(sel)
	if fn == nil {
		unsupported("abstract method %s on %s", m.Name(), t)
	}
	v := Value{K: KFunc, R: &Closure{Fn: fn}}
	in.methCache[key] = v
	return v
}

func (in *Interp) doCall(g *G, fr *Frame, call *ssa.CallCommon, dst *ssa.Call) {
	if b, ok := call.Value.(*ssa.Builtin); ok {
		args := make([]Value, len(call.Args))
		for i, a := range call.Args {
			args[i] = in.get(fr, a)
		}
		in.set(fr, dst, in.builtin(g, fr, b, args, call))
		return
	}
	fnv, args := in.prepareCall(g, fr, call)
	if g.top != fr || fr.panicking {
		return // panicked while preparing
	}
	res, done, ok := in.callValue(g, fr, fnv, args, dst)
	if !ok { // blocked: retry this instruction later
		fr.pc--
		g.block = "blocked in " + fr.Fn.Name()
		return
	}
	if done && g.top == fr && !fr.panicking {
		in.set(fr, dst, res)
	}
}

// runInits executes the package initialiser of the harness package; it transitively
// initialises every package of the module under test (init of other packages is a no-op,
// their globals are zero values / opaque errors).
func (in *Interp) runInits(g *G, fn *ssa.Function) {
	if fn.Pkg == nil {
		return
	}
	initFn := fn.Pkg.Func("init")
	if initFn == nil {
		return
	}
	in.initMode = true
	saved := in.cur
	in.cur = g
	root := &Frame{}
	g.top = root
	in.CallSync(Value{K: KFunc, R: &Closure{Fn: initFn}}, nil)
	g.top = nil
	in.cur = saved
	in.initMode = false
}

// ---- scheduler (seq mode) ----

// Run executes fn (no args) as the main goroutine to completion (seq scheduler:
// main has priority; when it blocks the other goroutines run FIFO).
func (in *Interp) Run(fn *ssa.Function) {
	main := &G{id: 0, path: "0"}
	in.gs = []*G{main}
	in.cur = main
	in.runInits(main, fn)
	in.pushFrame(main, fn, nil, nil, nil)
	for !main.done {
		progressed := false
		for i := 0; i < len(in.gs); i++ {
			g := in.gs[i]
			if g.done {
				continue
			}
			in.cur = g
			n := 0
			for !g.done {
				g.block = ""
				in.runStep(g)
				if g.block != "" {
					break
				}
				n++
			}
			if n > 0 {
				progressed = true
				break
			}
		}
		if !progressed {
			if in.fireTimer() {
				continue
			}
			in.reportDeadlock()
			panic(abortPath{"deadlock"})
		}
	}
}

func (in *Interp) runStep(g *G) {
	defer func() {
		if r := recover(); r != nil {
			if gp, ok := r.(goroutinePanic); ok {
				in.onUncaughtPanic(gp)
				panic(abortPath{"uncaught go panic"})
			}
			panic(r)
		}
	}()
	in.step(g)
	if g.top == nil {
		g.done = true
	}
}

func (in *Interp) onUncaughtPanic(gp goroutinePanic) {
	msg := "panic"
	if iv, ok := gp.v.R.(*IfaceV); ok {
		if p, ok := iv.V.R.(*GoPanic); ok {
			msg = p.Msg
		} else if s, ok := iv.V.ConcStr(); ok {
			msg = s
		}
	}
	r, m := in.Sol.Check(nil, true, in.modelVars())
	if r == smt.Unsat {
		return
	}
	site := in.panicSite(gp.g)
	if gp.site != "" {
		site = gp.site
	}
	in.addViolation("PANIC", PanicKind(msg)+" @ "+site, m, true, msg)
}
