package interp

import (
	"fmt"
	"go/token"
	"go/types"
	"strings"
	"unicode/utf8"

	"gosx/smt"

	"golang.org/x/tools/go/ssa"
)

func (in *Interp) unop(g *G, fr *Frame, ins *ssa.UnOp) Value {
	x := in.get(fr, ins.X)
	switch ins.Op {
	case token.MUL: // load
		if x.R == nil {
			in.goPanic(g, "nil pointer dereference (load "+ins.X.Type().String()+")")
			return Value{}
		}
		in.raceTouch(x.R.(*Value), false)
		return copyVal(*(x.R.(*Value)))
	case token.NOT:
		if x.R != nil {
			return mkSymBool(in.Ctx.Not(x.R.(*smt.Term)))
		}
		return mkBool(x.N == 0)
	case token.SUB:
		if x.R != nil {
			return mkSymInt(in.Ctx.Un(smt.OpNeg, x.R.(*smt.Term)))
		}
		return mkInt(-x.N, x.W)
	case token.XOR:
		if x.R != nil {
			return mkSymInt(in.Ctx.Un(smt.OpNot, x.R.(*smt.Term)))
		}
		return mkInt(^x.N, x.W)
	case token.ARROW:
		ch := x.R.(*ChanV)
		var v Value
		ok := false
		if len(ch.buf) > 0 {
			v, ok = ch.buf[0], true
			ch.buf = ch.buf[1:]
			in.raceAcquire(ch)
		} else if ch.closed {
			in.raceAcquire(ch)
			v = zero(ins.X.Type().Underlying().(*types.Chan).Elem())
		} else if p := in.chanPartner(g, ch, true); ch.cap == 0 && p != nil {
			v, ok = in.takeFrom(ch, p), true
		} else {
			fr.pc--
			g.block = "chan recv"
			return Value{}
		}
		if ins.CommaOk {
			return Value{K: KTuple, R: []Value{v, mkBool(ok)}}
		}
		return v
	}
	unsupported("unop %s", ins.Op)
	return Value{}
}

var cmpOps = map[token.Token]bool{token.EQL: true, token.NEQ: true, token.LSS: true, token.LEQ: true, token.GTR: true, token.GEQ: true}

func (in *Interp) binop(g *G, op token.Token, t types.Type, x, y Value) Value {
	c := in.Ctx
	if x.K == KOpaque && y.K == KOpaque {
		if v, ok := in.floatBinop(op, x, y); ok {
			return v
		}
	}
	switch x.K {
	case KInt:
		_, signed, _ := intInfo(t)
		if op == token.SHL || op == token.SHR {
			// shift count may have a different width: normalise to x's width
			if y.W != x.W {
				if y.R != nil {
					yt := y.R.(*smt.Term)
					if y.W < x.W {
						y = mkSymInt(c.ZExt(yt, x.W))
					} else {
						// large counts saturate: if any high bit set, count >= width
						hi := c.Cmp(smt.OpULt, yt, c.BV(uint64(x.W), y.W))
						y = mkSymInt(c.Ite(hi, c.Trunc(yt, x.W), c.BV(uint64(x.W), x.W)))
					}
				} else {
					n := y.N
					if n > uint64(x.W) {
						n = uint64(x.W)
					}
					y = mkInt(n, x.W)
				}
			}
		}
		if x.R == nil && y.R == nil {
			return concIntOp(g, in, op, x.W, signed, x.N, y.N)
		}
		xt, yt := x.Term(c), y.Term(c)
		switch op {
		case token.ADD:
			return mkSymInt(c.Bin(smt.OpAdd, xt, yt))
		case token.SUB:
			return mkSymInt(c.Bin(smt.OpSub, xt, yt))
		case token.MUL:
			return mkSymInt(c.Bin(smt.OpMul, xt, yt))
		case token.QUO, token.REM:
			zero := c.Cmp(smt.OpEq, yt, c.BV(0, yt.W))
			if in.Branch(zero, "div-by-zero") {
				in.goPanic(g, "integer divide by zero")
				return Value{}
			}
			o := map[bool]map[token.Token]smt.Op{true: {token.QUO: smt.OpSDiv, token.REM: smt.OpSRem}, false: {token.QUO: smt.OpUDiv, token.REM: smt.OpURem}}[signed][op]
			return mkSymInt(c.Bin(o, xt, yt))
		case token.AND:
			return mkSymInt(c.Bin(smt.OpAnd, xt, yt))
		case token.OR:
			return mkSymInt(c.Bin(smt.OpOr, xt, yt))
		case token.XOR:
			return mkSymInt(c.Bin(smt.OpXor, xt, yt))
		case token.AND_NOT:
			return mkSymInt(c.Bin(smt.OpAnd, xt, c.Un(smt.OpNot, yt)))
		case token.SHL:
			return mkSymInt(c.Bin(smt.OpShl, xt, yt))
		case token.SHR:
			if signed {
				return mkSymInt(c.Bin(smt.OpAShr, xt, yt))
			}
			return mkSymInt(c.Bin(smt.OpLShr, xt, yt))
		case token.EQL:
			return mkSymBool(c.Cmp(smt.OpEq, xt, yt))
		case token.NEQ:
			return mkSymBool(c.Not(c.Cmp(smt.OpEq, xt, yt)))
		case token.LSS, token.LEQ, token.GTR, token.GEQ:
			if op == token.GTR || op == token.GEQ {
				xt, yt = yt, xt
			}
			strict := op == token.LSS || op == token.GTR
			var o smt.Op
			switch {
			case signed && strict:
				o = smt.OpSLt
			case signed:
				o = smt.OpSLe
			case strict:
				o = smt.OpULt
			default:
				o = smt.OpULe
			}
			return mkSymBool(c.Cmp(o, xt, yt))
		}
	case KBool:
		xt, yt := x.Term(c), y.Term(c)
		switch op {
		case token.EQL:
			return mkSymBool(c.Cmp(smt.OpEq, xt, yt))
		case token.NEQ:
			return mkSymBool(c.Not(c.Cmp(smt.OpEq, xt, yt)))
		}
	case KStr:
		if op == token.ADD {
			return concatStr(x, y)
		}
		if op == token.EQL || op == token.NEQ {
			eq := in.strEqTerm(x, y)
			if op == token.NEQ {
				eq = in.Ctx.Not(eq)
			}
			return mkSymBool(eq)
		}
		cmp := in.strCompare(x, y) // symbolic int64: -1,0,1
		return in.binop(g, op, types.Typ[types.Int], cmp, mkInt(0, 64))
	case KPtr, KMap, KChan:
		eq := x.R == y.R
		switch op {
		case token.EQL:
			return mkBool(eq)
		case token.NEQ:
			return mkBool(!eq)
		}
	case KSlice, KFunc:
		// only comparison with nil is legal
		eq := (x.R == nil) == (y.R == nil) && (x.R == nil)
		switch op {
		case token.EQL:
			return mkBool(eq)
		case token.NEQ:
			return mkBool(!eq)
		}
	case KIface:
		eq := in.ifaceEq(g, x, y)
		switch op {
		case token.EQL:
			return eq
		case token.NEQ:
			return in.notV(eq)
		}
	case KStruct, KArray:
		eq := in.valEq(g, x, y)
		switch op {
		case token.EQL:
			return eq
		case token.NEQ:
			return in.notV(eq)
		}
	}
	unsupported("binop %s on kind %d (%s)", op, x.K, t)
	return Value{}
}

func (in *Interp) notV(b Value) Value {
	if b.R != nil {
		return mkSymBool(in.Ctx.Not(b.R.(*smt.Term)))
	}
	return mkBool(b.N == 0)
}

func (in *Interp) andV(a, b Value) Value {
	return mkSymBool(in.Ctx.And(a.Term(in.Ctx), b.Term(in.Ctx)))
}

func (in *Interp) valEq(g *G, x, y Value) Value {
	switch x.K {
	case KInt, KBool:
		return mkSymBool(in.Ctx.Cmp(smt.OpEq, x.Term(in.Ctx), y.Term(in.Ctx)))
	case KStr:
		return in.binop(g, token.EQL, types.Typ[types.String], x, y)
	case KStruct, KArray:
		res := mkBool(true)
		xs, ys := x.R.([]Value), y.R.([]Value)
		for i := range xs {
			res = in.andV(res, in.valEq(g, xs[i], ys[i]))
		}
		return res
	case KPtr, KMap, KChan:
		return mkBool(x.R == y.R)
	case KIface:
		return in.ifaceEq(g, x, y)
	case KOpaque:
		return mkBool(x.R == y.R)
	}
	unsupported("valEq kind %d", x.K)
	return Value{}
}

func (in *Interp) ifaceEq(g *G, x, y Value) Value {
	if x.R == nil || y.R == nil {
		return mkBool(x.R == nil && y.R == nil)
	}
	a, b := x.R.(*IfaceV), y.R.(*IfaceV)
	if !types.Identical(a.T, b.T) {
		return mkBool(false)
	}
	return in.valEq(g, a.V, b.V)
}

func concIntOp(g *G, in *Interp, op token.Token, w uint8, signed bool, a, b uint64) Value {
	m := maskW(w)
	sa, sb := sextW(a, w), sextW(b, w)
	switch op {
	case token.ADD:
		return mkInt(a+b, w)
	case token.SUB:
		return mkInt(a-b, w)
	case token.MUL:
		return mkInt(a*b, w)
	case token.QUO, token.REM:
		if b == 0 {
			in.goPanic(g, "integer divide by zero")
			return Value{}
		}
		if signed {
			if sb == -1 {
				if op == token.QUO {
					return mkInt(uint64(-sa), w)
				}
				return mkInt(0, w)
			}
			if op == token.QUO {
				return mkInt(uint64(sa/sb), w)
			}
			return mkInt(uint64(sa%sb), w)
		}
		if op == token.QUO {
			return mkInt(a/b, w)
		}
		return mkInt(a%b, w)
	case token.AND:
		return mkInt(a&b, w)
	case token.OR:
		return mkInt(a|b, w)
	case token.XOR:
		return mkInt(a^b, w)
	case token.AND_NOT:
		return mkInt(a&^b, w)
	case token.SHL:
		if b >= uint64(w) {
			return mkInt(0, w)
		}
		return mkInt(a<<b, w)
	case token.SHR:
		if signed {
			if b >= uint64(w) {
				b = uint64(w) - 1
			}
			return mkInt(uint64(sa>>b), w)
		}
		if b >= uint64(w) {
			return mkInt(0, w)
		}
		return mkInt((a&m)>>b, w)
	case token.EQL:
		return mkBool(a == b)
	case token.NEQ:
		return mkBool(a != b)
	case token.LSS:
		if signed {
			return mkBool(sa < sb)
		}
		return mkBool(a < b)
	case token.LEQ:
		if signed {
			return mkBool(sa <= sb)
		}
		return mkBool(a <= b)
	case token.GTR:
		if signed {
			return mkBool(sa > sb)
		}
		return mkBool(a > b)
	case token.GEQ:
		if signed {
			return mkBool(sa >= sb)
		}
		return mkBool(a >= b)
	}
	unsupported("int op %s", op)
	return Value{}
}

// strCompare returns a (possibly symbolic) int64 in {-1,0,1}.
func (in *Interp) strCompare(x, y Value) Value {
	c := in.Ctx
	if a, ok := x.ConcStr(); ok {
		if b, ok := y.ConcStr(); ok {
			switch {
			case a < b:
				return mkInt(^uint64(0), 64)
			case a > b:
				return mkInt(1, 64)
			}
			return mkInt(0, 64)
		}
	}
	// atoms
	if a, ta, ok := singleAtom(x); ok {
		if b, tb, ok := singleAtom(y); ok && ta == tb && a.Fam == b.Fam {
			if a == b {
				return mkInt(0, 64)
			}
			lt := c.Cmp(smt.OpULt, a.RankOf(in, ta), b.RankOf(in, ta))
			return mkSymInt(c.Ite(lt, c.BV(^uint64(0), 64), c.BV(1, 64)))
		}
		if s, ok := y.ConcStr(); ok && s == "" {
			return mkInt(1, 64)
		}
	}
	if _, _, ok := singleAtom(y); ok {
		if s, ok := x.ConcStr(); ok && s == "" {
			return mkInt(^uint64(0), 64)
		}
	}
	// general ropes: flatten to byte terms when no atoms are involved
	xb, ok1 := in.ropeBytes(x)
	yb, ok2 := in.ropeBytes(y)
	if ok1 && ok2 {
		return mkSymInt(in.lexCompare(xb, yb))
	}
	// structural equality of ropes with atoms: equal iff same key
	kx, okx := keyOf(x)
	ky, oky := keyOf(y)
	if okx && oky {
		if kx == ky {
			return mkInt(0, 64)
		}
		// unequal but order unknown: only (in)equality is meaningful; return 1 (documented limitation)
		return mkInt(1, 64)
	}
	unsupported("string compare of mixed ropes")
	return Value{}
}

func (in *Interp) ropeBytes(v Value) ([]*smt.Term, bool) {
	if s, ok := v.ConcStr(); ok {
		out := make([]*smt.Term, len(s))
		for i := 0; i < len(s); i++ {
			out[i] = in.Ctx.BV(uint64(s[i]), 8)
		}
		return out, true
	}
	r := v.R.(*Rope)
	var out []*smt.Term
	for _, sg := range r.Segs {
		switch {
		case sg.Atom != nil, sg.Opq != nil:
			return nil, false
		case sg.Sym != nil:
			out = append(out, sg.Sym...)
		default:
			for i := 0; i < len(sg.S); i++ {
				out = append(out, in.Ctx.BV(uint64(sg.S[i]), 8))
			}
		}
	}
	return out, true
}

// lexCompare builds a 64-bit term in {-1,0,1} comparing byte sequences.
func (in *Interp) lexCompare(a, b []*smt.Term) *smt.Term {
	c := in.Ctx
	n := len(a)
	if len(b) < n {
		n = len(b)
	}
	var tail *smt.Term
	switch {
	case len(a) < len(b):
		tail = c.BV(^uint64(0), 64)
	case len(a) > len(b):
		tail = c.BV(1, 64)
	default:
		tail = c.BV(0, 64)
	}
	res := tail
	for i := n - 1; i >= 0; i-- {
		lt := c.Cmp(smt.OpULt, a[i], b[i])
		eq := c.Cmp(smt.OpEq, a[i], b[i])
		res = c.Ite(eq, res, c.Ite(lt, c.BV(^uint64(0), 64), c.BV(1, 64)))
	}
	return res
}

func (in *Interp) convert(from, to types.Type, x Value) Value {
	c := in.Ctx
	fu, tu := from.Underlying(), to.Underlying()
	if tw, _, ok := intInfo(tu); ok {
		if fw, fsigned, ok := intInfo(fu); ok {
			if x.R == nil {
				if fsigned {
					return mkInt(uint64(sextW(x.N, fw)), tw)
				}
				return mkInt(x.N, tw)
			}
			t := x.R.(*smt.Term)
			switch {
			case tw < fw:
				return mkSymInt(c.Trunc(t, tw))
			case tw > fw && fsigned:
				return mkSymInt(c.SExt(t, tw))
			case tw > fw:
				return mkSymInt(c.ZExt(t, tw))
			}
			return x
		}
	}
	// string <-> []byte
	if tb, ok := tu.(*types.Basic); ok && tb.Info()&types.IsString != 0 {
		if fs, ok := fu.(*types.Slice); ok {
			if w, _, ok := intInfo(fs.Elem()); ok && w == 8 {
				return in.bytesToString(x)
			}
		}
		if _, _, ok := intInfo(fu); ok {
			if x.R == nil {
				return mkStr(string(rune(sextW(x.N, x.W))))
			}
		}
		if _, ok := fu.(*types.Basic); ok && x.K == KStr {
			return x
		}
	}
	if ts, ok := tu.(*types.Slice); ok {
		if fb, ok := fu.(*types.Basic); ok && fb.Info()&types.IsString != 0 {
			if w, _, ok := intInfo(ts.Elem()); ok && w == 8 {
				return in.stringToBytes(x)
			}
			if w, _, ok := intInfo(ts.Elem()); ok && w == 32 { // []rune(s)
				cs, conc := x.ConcStr()
				if !conc {
					unsupported("[]rune of a symbolic string")
				}
				var out []Value
				for _, r := range cs {
					out = append(out, mkInt(uint64(uint32(r)), 32))
				}
				return Value{K: KSlice, R: &SliceV{S: out}}
			}
		}
	}
	if tb, ok := tu.(*types.Basic); ok && tb.Info()&types.IsString != 0 {
		if fs, ok := fu.(*types.Slice); ok {
			if w, _, ok := intInfo(fs.Elem()); ok && w == 32 { // string([]rune)
				var rs []rune
				if x.R != nil {
					for _, c := range x.R.(*SliceV).S {
						if c.R != nil {
							unsupported("string of symbolic runes")
						}
						rs = append(rs, rune(int32(c.N)))
					}
				}
				return mkStr(string(rs))
			}
		}
	}
	if types.Identical(fu, tu) {
		return x
	}
	if _, ok := tu.(*types.Pointer); ok {
		return x
	}
	if b, ok := tu.(*types.Basic); ok && b.Kind() == types.UnsafePointer {
		return x
	}
	if b, ok := tu.(*types.Basic); ok && b.Info()&types.IsFloat != 0 {
		if fw, fsigned, ok := intInfo(fu); ok && b.Kind() == types.Float64 {
			return in.floatOfInt(x, fw, fsigned)
		}
		return Value{K: KOpaque, R: poison("float")}
	}
	if fb, ok := fu.(*types.Basic); ok && fb.Kind() == types.Float64 {
		if tw, tsigned, ok := intInfo(tu); ok && tw == 64 && tsigned {
			if f, isF := x.R.(*floatI); isF {
				// int64(f) for an integral f of magnitude at most 2^63: the magnitude's bits, negated for a negative
				// value (2^63 itself is out of range; amd64 yields the minimum, which is the same bit pattern)
				c := in.Ctx
				return mkSymInt(c.Ite(f.neg, c.Un(smt.OpNeg, f.mag), f.mag))
			}
		}
	}
	unsupported("convert %s -> %s", from, to)
	return Value{}
}

// byte slices are []Value cells: a cell is a byte (KInt, W=8, concrete or symbolic) or an opaque chunk
// (KOpaque *OpaqueBytes: an atom text or a constructor term) standing for a non-empty run of bytes;
// strings are ropes with the corresponding segments.
func (in *Interp) bytesToString(x Value) Value {
	if x.R == nil {
		return mkStr("")
	}
	s := x.R.(*SliceV).S
	if len(s) == 0 {
		return mkStr("")
	}
	var segs []Seg
	var cur []byte
	var sym []*smt.Term
	flushC := func() {
		if len(cur) > 0 {
			segs = append(segs, Seg{S: string(cur)})
			cur = nil
		}
	}
	flushS := func() {
		if len(sym) > 0 {
			segs = append(segs, Seg{Sym: sym})
			sym = nil
		}
	}
	for _, b := range s {
		switch {
		case b.K == KOpaque:
			flushC()
			flushS()
			ob, ok := b.R.(*OpaqueBytes)
			if !ok {
				unsupported("string of non-byte cell")
			}
			if ob.T != nil {
				segs = append(segs, Seg{Opq: ob.T})
			} else {
				segs = append(segs, Seg{Atom: ob.A, Tag: ob.Tag})
			}
		case b.R != nil:
			flushC()
			sym = append(sym, b.R.(*smt.Term))
		default:
			flushS()
			cur = append(cur, byte(b.N))
		}
	}
	flushC()
	flushS()
	return normRope(&Rope{Segs: segs})
}

type OpaqueBytes struct {
	A   *Atom
	Tag string
	T   *OTerm
}

func (in *Interp) stringToBytes(x Value) Value {
	r := ropeOf(x)
	var out []Value
	for _, sg := range r.Segs {
		switch {
		case sg.Opq != nil:
			out = append(out, Value{K: KOpaque, R: &OpaqueBytes{T: sg.Opq}})
		case sg.Atom != nil:
			out = append(out, Value{K: KOpaque, R: &OpaqueBytes{A: sg.Atom, Tag: sg.Tag}})
		case sg.Sym != nil:
			for _, t := range sg.Sym {
				out = append(out, mkSymInt(t))
			}
		default:
			for i := 0; i < len(sg.S); i++ {
				out = append(out, mkInt(uint64(sg.S[i]), 8))
			}
		}
	}
	return Value{K: KSlice, R: &SliceV{S: out}}
}

func (in *Interp) sliceOp(g *G, fr *Frame, ins *ssa.Slice) Value {
	x := in.get(fr, ins.X)
	idx := func(v ssa.Value, def int64) int64 {
		if v == nil {
			return def
		}
		return in.concIntT(in.get(fr, v), v.Type(), "slice bound")
	}
	switch x.K {
	case KStr:
		s, ok := x.ConcStr()
		if !ok {
			bs, ok2 := in.ropeBytes(x)
			if !ok2 {
				unsupported("slice of atom string")
			}
			lo, hi := idx(ins.Low, 0), idx(ins.High, int64(len(bs)))
			if lo < 0 || hi > int64(len(bs)) || lo > hi {
				in.goPanic(g, fmt.Sprintf("slice bounds out of range [%d:%d] with length %d", lo, hi, len(bs)))
				return Value{}
			}
			return normRope(&Rope{Segs: []Seg{{Sym: bs[lo:hi]}}})
		}
		lo, hi := idx(ins.Low, 0), idx(ins.High, int64(len(s)))
		if lo < 0 || hi > int64(len(s)) || lo > hi {
			in.goPanic(g, fmt.Sprintf("slice bounds out of range [%d:%d] with length %d", lo, hi, len(s)))
			return Value{}
		}
		return mkStr(s[lo:hi])
	case KSlice:
		var s []Value
		if x.R != nil {
			s = x.R.(*SliceV).S
		}
		if n, ok := nominalLen(x); ok {
			// a byte string kept as one opaque chunk: only the whole of it, or nothing of it, can be sliced
			lo, hi := idx(ins.Low, 0), idx(ins.High, int64(n))
			switch {
			case lo == 0 && hi == int64(n):
				return x
			case lo == hi && lo >= 0 && lo <= int64(n):
				return Value{K: KSlice, R: &SliceV{S: []Value{}}}
			}
			if lo < 0 || hi < lo || hi > int64(n) {
				in.goPanic(g, fmt.Sprintf("slice bounds out of range [%d:%d] with capacity %d", lo, hi, n))
				return Value{}
			}
			if v, ok := chunkSlice(x, lo, hi); ok {
				return v
			}
			unsupported("slice [%d:%d] inside an opaque byte string of %d bytes", lo, hi, n)
		}
		lo := idx(ins.Low, 0)
		hi := idx(ins.High, int64(len(s)))
		mx := idx(ins.Max, int64(cap(s)))
		if g.top != fr || fr.panicking {
			return Value{}
		}
		if lo < 0 || hi < lo || mx < hi || mx > int64(cap(s)) {
			in.goPanic(g, fmt.Sprintf("slice bounds out of range [%d:%d:%d] with capacity %d", lo, hi, mx, cap(s)))
			return Value{}
		}
		if x.R == nil {
			return x
		}
		return Value{K: KSlice, R: &SliceV{S: s[lo:hi:mx]}}
	case KPtr: // pointer to array
		if x.R == nil {
			in.goPanic(g, "slice of nil array pointer")
			return Value{}
		}
		arr := x.R.(*Value).R.([]Value)
		lo, hi := idx(ins.Low, 0), idx(ins.High, int64(len(arr)))
		mx := idx(ins.Max, int64(len(arr)))
		if lo < 0 || hi < lo || mx < hi || mx > int64(len(arr)) {
			in.goPanic(g, "slice bounds out of range (array)")
			return Value{}
		}
		return Value{K: KSlice, R: &SliceV{S: arr[lo:hi:mx]}}
	}
	unsupported("slice of kind %d", x.K)
	return Value{}
}

// concIntChecked concretises a possibly symbolic int (forking per value).
func (in *Interp) concIntChecked(g *G, v Value, site string) int64 {
	return in.concInt(v, site)
}

// tableLookup: a read-only lookup table (array of >= 16 concrete integers, reached through a pointer to the
// array, e.g. utf8.first, hex tables) indexed by a symbolic value yields one ite-chain instead of a fork per
// index value. The result is a pointer to a fresh cell: loads see the selected element; such tables are
// never stored to through a symbolic index.
func (in *Interp) tableLookup(g *G, x Value, iv Value) (Value, bool) {
	if iv.R == nil || x.K != KPtr || x.R == nil {
		return Value{}, false
	}
	arr, ok := x.R.(*Value)
	if !ok || arr.K != KArray {
		return Value{}, false
	}
	elems := arr.R.([]Value)
	if len(elems) < 16 || len(elems) > 256 {
		return Value{}, false
	}
	for _, e := range elems {
		if (e.K != KInt && e.K != KBool) || e.R != nil {
			return Value{}, false
		}
	}
	c := in.Ctx
	idx := iv.R.(*smt.Term)
	// bounds check
	inb := c.T
	if idx.W >= 63 || uint64(len(elems)) < (uint64(1)<<idx.W) {
		inb = c.Cmp(smt.OpULt, idx, c.BV(uint64(len(elems)), idx.W))
	}
	if !in.Branch(inb, "table index in range") {
		in.goPanic(g, "index out of range (symbolic table index)")
		return Value{}, true
	}
	isBool := elems[0].K == KBool
	var res *smt.Term
	if isBool {
		res = c.F
	} else {
		res = c.BV(0, elems[0].W)
	}
	for i := len(elems) - 1; i >= 0; i-- {
		var ev *smt.Term
		if isBool {
			ev = c.Bool(elems[i].N == 1)
		} else {
			ev = c.BV(elems[i].N, elems[i].W)
		}
		res = c.Ite(c.Cmp(smt.OpEq, idx, c.BV(uint64(i), idx.W)), ev, res)
	}
	cell := new(Value)
	if isBool {
		*cell = mkSymBool(res)
	} else {
		*cell = mkSymInt(res)
	}
	return Value{K: KPtr, R: cell}, true
}

func (in *Interp) indexAddr(g *G, fr *Frame, ins *ssa.IndexAddr) {
	x := in.get(fr, ins.X)
	if v, ok := in.tableLookup(g, x, in.get(fr, ins.Index)); ok {
		if g.top == fr && !fr.panicking {
			in.set(fr, ins, v)
		}
		return
	}
	i := in.concIntT(in.get(fr, ins.Index), ins.Index.Type(), "index")
	var elems []Value
	switch x.K {
	case KSlice:
		if n, ok := nominalLen(x); ok {
			if i < 0 || i >= int64(n) {
				in.goPanic(g, fmt.Sprintf("index out of range [%d] with length %d", i, n))
				return
			}
			if b, ok := in.chunkByte(x, i); ok {
				cell := &Value{}
				*cell = b
				if in.roCells == nil {
					in.roCells = map[*Value]bool{}
				}
				in.roCells[cell] = true
				in.set(fr, ins, Value{K: KPtr, R: cell})
				return
			}
			unsupported("byte %d of an opaque byte string of %d bytes", i, n)
		}
		if x.R != nil {
			elems = x.R.(*SliceV).S
		}
	case KPtr:
		if x.R == nil {
			in.goPanic(g, "index of nil array pointer")
			return
		}
		elems = x.R.(*Value).R.([]Value)
	default:
		unsupported("IndexAddr on kind %d", x.K)
	}
	if i < 0 || i >= int64(len(elems)) {
		in.goPanic(g, fmt.Sprintf("index out of range [%d] with length %d", i, len(elems)))
		return
	}
	in.set(fr, ins, Value{K: KPtr, R: &elems[i]})
}

func (in *Interp) indexOp(g *G, fr *Frame, ins *ssa.Index) {
	x := in.get(fr, ins.X)
	iv := in.get(fr, ins.Index)
	switch x.K {
	case KArray:
		i := in.concIntT(iv, ins.Index.Type(), "index")
		es := x.R.([]Value)
		if i < 0 || i >= int64(len(es)) {
			in.goPanic(g, "index out of range")
			return
		}
		in.set(fr, ins, copyVal(es[i]))
	case KStr:
		if cs, ok := x.ConcStr(); ok && iv.R == nil { // concrete string, concrete index: no terms needed
			i := in.concIntT(iv, ins.Index.Type(), "string index")
			if i < 0 || i >= int64(len(cs)) {
				in.goPanic(g, fmt.Sprintf("index out of range [%d] with length %d", i, len(cs)))
				return
			}
			in.set(fr, ins, mkInt(uint64(cs[i]), 8))
			return
		}
		bs, ok := in.ropeBytes(x)
		if !ok {
			unsupported("index of atom string")
		}
		i := in.concIntT(iv, ins.Index.Type(), "string index")
		if i < 0 || i >= int64(len(bs)) {
			in.goPanic(g, fmt.Sprintf("index out of range [%d] with length %d", i, len(bs)))
			return
		}
		in.set(fr, ins, mkSymInt(bs[i]))
	default:
		unsupported("Index on kind %d", x.K)
	}
}

func (in *Interp) lookup(g *G, fr *Frame, ins *ssa.Lookup) {
	x := in.get(fr, ins.X)
	k := in.get(fr, ins.Index)
	if x.K == KStr {
		if cs, ok := x.ConcStr(); ok && k.R == nil { // concrete string, concrete index: no terms needed
			i := in.concIntT(k, ins.Index.Type(), "string index")
			if i < 0 || i >= int64(len(cs)) {
				in.goPanic(g, fmt.Sprintf("index out of range [%d] with length %d", i, len(cs)))
				return
			}
			in.set(fr, ins, mkInt(uint64(cs[i]), 8))
			return
		}
		bs, ok := in.ropeBytes(x)
		if !ok {
			unsupported("index of atom string")
		}
		i := in.concIntT(k, ins.Index.Type(), "string index")
		if i < 0 || i >= int64(len(bs)) {
			in.goPanic(g, fmt.Sprintf("index out of range [%d] with length %d", i, len(bs)))
			return
		}
		in.set(fr, ins, mkSymInt(bs[i]))
		return
	}
	elemT := ins.X.Type().Underlying().(*types.Map).Elem()
	var v Value
	found := false
	if x.R != nil {
		in.raceAccess(x.R.(*MapV), false)
		m := x.R.(*MapV)
		if i, ok := in.mapFind(g, m, k); ok {
			v, found = m.Vals[i], true
		}
	}
	if !found {
		v = zero(elemT)
	}
	v = copyVal(v)
	if ins.CommaOk {
		in.set(fr, ins, Value{K: KTuple, R: []Value{v, mkBool(found)}})
	} else {
		in.set(fr, ins, v)
	}
}

func (in *Interp) typeAssert(g *G, fr *Frame, ins *ssa.TypeAssert) {
	x := in.get(fr, ins.X)
	ok := false
	var res Value
	if x.R != nil {
		iv := x.R.(*IfaceV)
		if it, isI := ins.AssertedType.Underlying().(*types.Interface); isI {
			ok = iv.T != errType && (iv.T == keyType || iv.T == ctxType || iv.T == hashType || types.Implements(iv.T, it))
			if iv.T == errType {
				ok = it.NumMethods() <= 1 // opaque errors implement error only
			}
			res = x
		} else {
			ok = types.Identical(iv.T, ins.AssertedType)
			res = iv.V
		}
	}
	if !ok {
		res = zero(ins.AssertedType)
	}
	if ins.CommaOk {
		in.set(fr, ins, Value{K: KTuple, R: []Value{res, mkBool(ok)}})
		return
	}
	if !ok {
		in.goPanic(g, "interface conversion failed: "+ins.AssertedType.String())
		return
	}
	in.set(fr, ins, res)
}

// mapFind locates key k in m. Keys of concrete identity use the index; a key (or stored keys) whose
// identity is symbolic is compared by formula with the candidates, forking on each undecided equality.
func (in *Interp) mapFind(g *G, m *MapV, k Value) (int, bool) {
	ks, canon := keyOf(k)
	if canon {
		if i, ok := m.idx[ks]; ok {
			return i, true
		}
		for _, i := range m.fuzzy {
			if m.Live[i] && in.decideEq(g, k, m.Keys[i]) {
				return i, true
			}
		}
		return -1, false
	}
	for i := range m.Keys {
		if m.Live[i] && in.decideEq(g, k, m.Keys[i]) {
			return i, true
		}
	}
	return -1, false
}

func (in *Interp) decideEq(g *G, a, b Value) bool {
	eq := in.valEq(g, a, b)
	if eq.R == nil {
		return eq.N == 1
	}
	return in.Branch(eq.R.(*smt.Term), "map key equality")
}

func (in *Interp) mapSet(g *G, m *MapV, k, v Value) {
	if i, ok := in.mapFind(g, m, k); ok {
		m.Vals[i] = v
		return
	}
	ks, canon := keyOf(k)
	pos := len(m.Keys)
	if canon {
		m.idx[ks] = pos
	} else {
		m.fuzzy = append(m.fuzzy, pos)
	}
	m.Keys = append(m.Keys, k)
	m.Vals = append(m.Vals, v)
	m.Live = append(m.Live, true)
	m.n++
}

func (in *Interp) mapDel(g *G, m *MapV, k Value) {
	if i, ok := in.mapFind(g, m, k); ok {
		if ks, canon := keyOf(m.Keys[i]); canon {
			delete(m.idx, ks)
		}
		m.Live[i] = false
		m.n--
	}
}

type rangeIter struct {
	m    *MapV
	i    int
	str  string
	isS  bool
	perm []int
	bs   []*smt.Term // range over a string with symbolic bytes
	rev  bool        // maps: reverse insertion order
}

// rangeInitAt: Go does not specify the iteration order of maps. For range statements outside the harness over
// maps with at least two keys, two orders are explored (insertion order and its reverse; the choice is made
// once per range statement and path), which exposes code whose result depends on the order without paying for
// every permutation.
func (in *Interp) rangeInitAt(fr *Frame, ins *ssa.Range, x Value) Value {
	v := in.rangeInit(x)
	if x.K != KMap || x.R == nil {
		return v
	}
	pkg := fnPkgPath(fr.Fn)
	if strings.HasSuffix(pkg, "/zz_verif") || strings.Contains(pkg, "/internal/vx") || in.initMode {
		return v
	}
	m := x.R.(*MapV)
	live := 0
	for _, l := range m.Live {
		if l {
			live++
		}
	}
	if live < 2 {
		return v
	}
	rev, seen := in.mapOrder[ins]
	if !seen {
		rev = in.Pick(2, "map-order") == 1
		if in.mapOrder == nil {
			in.mapOrder = map[*ssa.Range]bool{}
		}
		in.mapOrder[ins] = rev
	}
	if rev {
		it := v.R.(*rangeIter)
		it.rev = true
		it.i = len(m.Keys) - 1
	}
	return v
}

func (in *Interp) rangeInit(x Value) Value {
	switch x.K {
	case KMap:
		it := &rangeIter{}
		if x.R != nil {
			it.m = x.R.(*MapV)
			in.raceAccess(it.m, false)
		}
		return Value{K: KOpaque, R: it}
	case KStr:
		s, ok := x.ConcStr()
		if !ok {
			bs, ok := in.ropeBytes(x)
			if !ok {
				unsupported("range over a string with opaque parts")
			}
			return Value{K: KOpaque, R: &rangeIter{bs: bs, isS: true}}
		}
		return Value{K: KOpaque, R: &rangeIter{str: s, isS: true}}
	}
	unsupported("range over kind %d", x.K)
	return Value{}
}

func (in *Interp) rangeNext(itv Value, ins *ssa.Next) Value {
	it := itv.R.(*rangeIter)
	if ins.IsString && it.bs != nil {
		if it.i >= len(it.bs) {
			return Value{K: KTuple, R: []Value{mkBool(false), mkInt(0, 64), mkInt(0, 32)}}
		}
		pos := it.i
		r, w, _ := in.decodeRuneSym(it.bs, it.i)
		it.i += w
		return Value{K: KTuple, R: []Value{mkBool(true), mkInt(uint64(pos), 64), r}}
	}
	if ins.IsString {
		if it.i >= len(it.str) {
			return Value{K: KTuple, R: []Value{mkBool(false), mkInt(0, 64), mkInt(0, 32)}}
		}
		for j, r := range it.str[it.i:] {
			_ = j
			pos := it.i
			_, w := utf8.DecodeRuneInString(it.str[it.i:]) // an ill-formed byte yields U+FFFD of width 1
			it.i += w
			return Value{K: KTuple, R: []Value{mkBool(true), mkInt(uint64(pos), 64), mkInt(uint64(r), 32)}}
		}
	}
	tt := ins.Type().(*types.Tuple)
	if it.m != nil && it.rev {
		for it.i >= 0 {
			i := it.i
			it.i--
			if i < len(it.m.Keys) && it.m.Live[i] {
				return Value{K: KTuple, R: []Value{mkBool(true), it.m.Keys[i], copyVal(it.m.Vals[i])}}
			}
		}
		return Value{K: KTuple, R: []Value{mkBool(false), zeroOrInvalid(tt.At(1).Type()), zeroOrInvalid(tt.At(2).Type())}}
	}
	if it.m != nil {
		for it.i < len(it.m.Keys) {
			i := it.i
			it.i++
			if it.m.Live[i] {
				return Value{K: KTuple, R: []Value{mkBool(true), it.m.Keys[i], copyVal(it.m.Vals[i])}}
			}
		}
	}
	return Value{K: KTuple, R: []Value{mkBool(false), zeroOrInvalid(tt.At(1).Type()), zeroOrInvalid(tt.At(2).Type())}}
}

func zeroOrInvalid(t types.Type) Value {
	if b, ok := t.(*types.Basic); ok && b.Kind() == types.Invalid {
		return Value{}
	}
	return zero(t)
}
