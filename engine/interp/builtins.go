package interp

import (
	"go/token"
	"go/types"
	"reflect"
	"sync"

	"gosx/smt"

	"golang.org/x/tools/go/ssa"
)

var sizes = types.SizesFor("gc", "amd64")

var growCache = map[[4]int]int{}
var growMu sync.Mutex

// growCap reproduces runtime.growslice's capacity for append.
func growCap(elemSize, oldLen, oldCap, add int) int {
	if elemSize <= 0 {
		elemSize = 1
	}
	k := [4]int{elemSize, oldLen, oldCap, add}
	growMu.Lock()
	defer growMu.Unlock()
	if c, ok := growCache[k]; ok {
		return c
	}
	et := reflect.ArrayOf(elemSize, reflect.TypeOf(uint8(0)))
	st := reflect.SliceOf(et)
	s := reflect.MakeSlice(st, oldLen, oldCap)
	c := reflect.AppendSlice(s, reflect.MakeSlice(st, add, add)).Cap()
	growCache[k] = c
	return c
}

func (in *Interp) builtin(g *G, fr *Frame, b *ssa.Builtin, args []Value, call *ssa.CallCommon) Value {
	switch b.Name() {
	case "len":
		x := args[0]
		switch x.K {
		case KStr:
			if s, ok := x.ConcStr(); ok {
				return mkInt(uint64(len(s)), 64)
			}
			n := 0
			for _, sg := range x.R.(*Rope).Segs {
				switch {
				case sg.Atom != nil, sg.Opq != nil:
					n += 46 // nominal non-zero length of an opaque string
				case sg.Sym != nil:
					n += len(sg.Sym)
				default:
					n += len(sg.S)
				}
			}
			return mkInt(uint64(n), 64)
		case KSlice:
			if x.R == nil {
				return mkInt(0, 64)
			}
			if n, ok := nominalLen(x); ok {
				return mkInt(uint64(n), 64)
			}
			return mkInt(uint64(len(x.R.(*SliceV).S)), 64)
		case KMap:
			if x.R == nil {
				return mkInt(0, 64)
			}
			in.raceAccess(x.R.(*MapV), false)
			return mkInt(uint64(x.R.(*MapV).n), 64)
		case KArray:
			return mkInt(uint64(len(x.R.([]Value))), 64)
		case KPtr:
			return mkInt(uint64(len(x.R.(*Value).R.([]Value))), 64)
		case KChan:
			if x.R == nil {
				return mkInt(0, 64)
			}
			return mkInt(uint64(len(x.R.(*ChanV).buf)), 64)
		}
	case "cap":
		x := args[0]
		if x.K == KChan {
			if x.R == nil {
				return mkInt(0, 64)
			}
			return mkInt(uint64(x.R.(*ChanV).cap), 64)
		}
		if x.K == KSlice {
			if x.R == nil {
				return mkInt(0, 64)
			}
			if in.repCapUsed && cap(x.R.(*SliceV).S) >= repCap {
				unsupported("cap() of a slice made with a large symbolic capacity")
			}
			return mkInt(uint64(cap(x.R.(*SliceV).S)), 64)
		}
	case "append":
		x, y := args[0], args[1]
		var xs, ys []Value
		if x.R != nil {
			xs = x.R.(*SliceV).S
		}
		if y.K == KStr { // append([]byte, string...)
			y = in.stringToBytes(y)
		}
		if y.R != nil {
			ys = y.R.(*SliceV).S
		}
		if len(ys) == 0 {
			return x
		}
		n := len(xs) + len(ys)
		if in.repCapUsed && n > 64 && cap(xs) >= repCap {
			unsupported("append beyond 64 elements to a slice made with a large symbolic capacity")
		}
		if n <= cap(xs) {
			out := xs[:n]
			for i, v := range ys {
				in.raceTouch(&out[len(xs)+i], true)
				out[len(xs)+i] = copyVal(v)
			}
			return Value{K: KSlice, R: &SliceV{S: normKeyCells(out)}}
		}
		elT := call.Args[0].Type().Underlying().(*types.Slice).Elem()
		nc := growCap(int(sizes.Sizeof(elT)), len(xs), cap(xs), len(ys))
		out := make([]Value, n, nc)
		copy(out, xs)
		for i, v := range ys {
			out[len(xs)+i] = copyVal(v)
		}
		full := out[:nc]
		for i := n; i < nc; i++ {
			full[i] = zero(elT)
		}
		return Value{K: KSlice, R: &SliceV{S: normKeyCells(out)}}
	case "copy":
		x, y := args[0], args[1]
		var xs, ys []Value
		if x.R != nil {
			xs = x.R.(*SliceV).S
		}
		if y.K == KStr {
			y = in.stringToBytes(y)
		}
		if y.R != nil {
			ys = y.R.(*SliceV).S
		}
		n := len(xs)
		if len(ys) < n {
			n = len(ys)
		}
		tmp := make([]Value, n)
		for i := 0; i < n; i++ {
			tmp[i] = copyVal(ys[i])
		}
		copy(xs, tmp)
		return mkInt(uint64(n), 64)
	case "clear":
		switch args[0].K {
		case KMap:
			if args[0].R != nil {
				m := args[0].R.(*MapV)
				in.raceAccess(m, true)
				*m = *newMap()
			}
		case KSlice:
			if args[0].R != nil {
				es := args[0].R.(*SliceV).S
				et := call.Args[0].Type().Underlying().(*types.Slice).Elem()
				for i := range es {
					es[i] = zero(et)
				}
			}
		}
		return Value{}
	case "delete":
		if args[0].R != nil {
			in.raceAccess(args[0].R.(*MapV), true)
			in.mapDel(g, args[0].R.(*MapV), args[1])
		}
		return Value{}
	case "close":
		if args[0].R == nil {
			in.goPanic(g, "close of nil channel")
			return Value{}
		}
		if args[0].R.(*ChanV).closed {
			in.goPanic(g, "close of closed channel")
			return Value{}
		}
		args[0].R.(*ChanV).closed = true
		in.raceRelease(args[0].R.(*ChanV))
		return Value{}
	case "print", "println":
		return Value{}
	case "recover":
		// frame chain: deferred fn frame -> marker -> panicking frame
		if fr.caller != nil && fr.caller.Fn == nil && fr.caller.caller != nil {
			pf := fr.caller.caller
			if pf.panicking && pf.runningDefers {
				pf.panicking = false
				g.psite = ""
				return pf.panicVal
			}
		}
		return Value{K: KIface}
	case "ssa:wrapnilchk":
		if args[0].R == nil {
			in.goPanic(g, "value method called using nil pointer")
			return Value{}
		}
		return args[0]
	case "min", "max":
		r := args[0]
		for _, a := range args[1:] {
			lt := in.binop(g, token.LSS, call.Args[0].Type(), a, r)
			pick := lt
			if b.Name() == "max" {
				pick = in.notV(lt)
			}
			if pick.R != nil {
				r = mkSymInt(in.Ctx.Ite(pick.R.(*smt.Term), a.Term(in.Ctx), r.Term(in.Ctx)))
			} else if pick.N == 1 {
				r = a
			}
		}
		return r
	}
	unsupported("builtin %s (%d args)", b.Name(), len(args))
	return Value{}
}
