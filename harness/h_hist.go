//go:build verif

package zz_verif

import (
	ipfslog "berty.tech/go-ipfs-log"
	idp "berty.tech/go-ipfs-log/identityprovider"
	"berty.tech/go-ipfs-log/entry/sorting"
	"berty.tech/go-ipfs-log/internal/vx"
)

// H_smoke: one append, check basics (engine bring-up).
func H_smoke() {
	api := newMemAPI()
	idA := mockIdentity("A", []byte{1})
	l := newLog(api, idA, nil)
	e, err := l.Append(ctx, []byte("p0"), nil)
	vx.Assert("SMOKE", err == nil, "append ok")
	vx.Assert("SMOKE", l.Len() == 1, "len 1")
	vx.Assert("SMOKE", e.GetClock().GetTime() == 1, "time 1")
	e2, _ := l.Append(ctx, []byte("p1"), nil)
	vx.Assert("SMOKE", e2.GetClock().GetTime() == 2, "time 2")
	vx.Assert("SMOKE", len(e2.GetNext()) == 1, "one next")
	vx.Assert("SMOKE", l.Values().Len() == 2, "values 2")
	vx.Cover("smoke-done")
}

// H_hist: R replicas, K symbolic steps of append/join; C02 invariant after every step; C01-style convergence at the end.
func H_hist() {
	const R, K = 2, 4
	api := newMemAPI()
	ids := []*idp.Identity{mockIdentity("A", []byte{1}), mockIdentity("B", []byte{2})}
	logs := make([]*ipfslog.IPFSLog, R)
	for r := range logs {
		logs[r] = newLog(api, ids[r], sorting.SortByEntryHash)
	}
	payload := []string{"p0", "p1", "p2", "p3", "p4", "p5"}
	for s := 0; s < K; s++ {
		op := vx.Choice("op", R+R*(R-1))
		if s == 0 {
			vx.Assume(op == 0)
		}
		if op < R {
			_, err := logs[op].Append(ctx, []byte(payload[s]), nil)
			vx.Assert("C04", err == nil, "append succeeds")
		} else {
			k := op - R
			dst := k / (R - 1)
			src := k % (R - 1)
			if src >= dst {
				src++
			}
			_, err := logs[dst].Join(logs[src], -1)
			vx.Assert("C06", err == nil, "join of valid log succeeds")
		}
		for r := range logs {
			es := logs[r].GetEntries().Slice()
			hs := logs[r].Heads().Slice()
			vx.Assert("C02", sameSet(hashSet(hs), refHeads(es)), "heads are exactly the unreferenced entries")
			vx.Assert("C03", logs[r].Values().Len() == len(es), "values complete")
		}
	}
	// exchange: X merges 0 then 1; Y merges 1 then 0
	X := newLog(api, ids[0], sorting.SortByEntryHash)
	Y := newLog(api, ids[1], sorting.SortByEntryHash)
	X.Join(logs[0], -1)
	X.Join(logs[1], -1)
	Y.Join(logs[1], -1)
	Y.Join(logs[0], -1)
	Y.Join(logs[1], -1)
	vx.Assert("C01", sameSet(hashSet(X.GetEntries().Slice()), hashSet(Y.GetEntries().Slice())), "same entries")
	vx.Assert("C01", sameSet(hashSet(X.Heads().Slice()), hashSet(Y.Heads().Slice())), "same heads")
	xv, yv := X.Values().Slice(), Y.Values().Slice()
	vx.Assert("C01", len(xv) == len(yv), "same length")
	for i := range xv {
		if i < len(yv) {
			vx.Assert("C01", xv[i].GetHash().String() == yv[i].GetHash().String(), "same linearisation")
		}
	}
	vx.Cover("hist-done")
}

// H_hist: R replicas, K symbolic steps of append/join; C02 invariant after every step; C01-style convergence at the end.
func H_hist2() {
	const R, K = 2, 5
	api := newMemAPI()
	ids := []*idp.Identity{mockIdentity("A", []byte{1}), mockIdentity("B", []byte{1})}
	logs := make([]*ipfslog.IPFSLog, R)
	for r := range logs {
		logs[r] = newLog(api, ids[r], sorting.SortByEntryHash)
	}
	payload := []string{"p0", "p1", "p2", "p3", "p4", "p5"}
	for s := 0; s < K; s++ {
		op := vx.Choice("op", R+R*(R-1))
		if s == 0 {
			vx.Assume(op == 0)
		}
		if op < R {
			_, err := logs[op].Append(ctx, []byte(payload[s]), nil)
			vx.Assert("C04", err == nil, "append succeeds")
		} else {
			k := op - R
			dst := k / (R - 1)
			src := k % (R - 1)
			if src >= dst {
				src++
			}
			_, err := logs[dst].Join(logs[src], -1)
			vx.Assert("C06", err == nil, "join of valid log succeeds")
		}
		for r := range logs {
			es := logs[r].GetEntries().Slice()
			hs := logs[r].Heads().Slice()
			vx.Assert("C02", sameSet(hashSet(hs), refHeads(es)), "heads are exactly the unreferenced entries")
			vx.Assert("C03", logs[r].Values().Len() == len(es), "values complete")
		}
	}
	// exchange: X merges 0 then 1; Y merges 1 then 0
	X := newLog(api, ids[0], sorting.SortByEntryHash)
	Y := newLog(api, ids[1], sorting.SortByEntryHash)
	X.Join(logs[0], -1)
	X.Join(logs[1], -1)
	Y.Join(logs[1], -1)
	Y.Join(logs[0], -1)
	Y.Join(logs[1], -1)
	vx.Assert("C01", sameSet(hashSet(X.GetEntries().Slice()), hashSet(Y.GetEntries().Slice())), "same entries")
	vx.Assert("C01", sameSet(hashSet(X.Heads().Slice()), hashSet(Y.Heads().Slice())), "same heads")
	xv, yv := X.Values().Slice(), Y.Values().Slice()
	vx.Assert("C01", len(xv) == len(yv), "same length")
	for i := range xv {
		if i < len(yv) {
			vx.Assert("C01", xv[i].GetHash().String() == yv[i].GetHash().String(), "same linearisation")
		}
	}
	vx.Cover("hist-done")
}

// H_hist: R replicas, K symbolic steps of append/join; C02 invariant after every step; C01-style convergence at the end.
func H_hist3() {
	const R, K = 3, 4
	api := newMemAPI()
	ids := []*idp.Identity{mockIdentity("A", []byte{1}), mockIdentity("B", []byte{1}), mockIdentity("C", []byte{2})}
	logs := make([]*ipfslog.IPFSLog, R)
	for r := range logs {
		logs[r] = newLog(api, ids[r], sorting.SortByEntryHash)
	}
	payload := []string{"p0", "p1", "p2", "p3", "p4", "p5"}
	for s := 0; s < K; s++ {
		op := vx.Choice("op", R+R*(R-1))
		if s == 0 {
			vx.Assume(op == 0)
		}
		if op < R {
			_, err := logs[op].Append(ctx, []byte(payload[s]), nil)
			vx.Assert("C04", err == nil, "append succeeds")
		} else {
			k := op - R
			dst := k / (R - 1)
			src := k % (R - 1)
			if src >= dst {
				src++
			}
			_, err := logs[dst].Join(logs[src], -1)
			vx.Assert("C06", err == nil, "join of valid log succeeds")
		}
		for r := range logs {
			es := logs[r].GetEntries().Slice()
			hs := logs[r].Heads().Slice()
			vx.Assert("C02", sameSet(hashSet(hs), refHeads(es)), "heads are exactly the unreferenced entries")
			vx.Assert("C03", logs[r].Values().Len() == len(es), "values complete")
		}
	}
	// exchange: X merges 0 then 1; Y merges 1 then 0
	X := newLog(api, ids[0], sorting.SortByEntryHash)
	Y := newLog(api, ids[1], sorting.SortByEntryHash)
	X.Join(logs[0], -1)
	X.Join(logs[1], -1)
	Y.Join(logs[1], -1)
	Y.Join(logs[0], -1)
	Y.Join(logs[1], -1)
	vx.Assert("C01", sameSet(hashSet(X.GetEntries().Slice()), hashSet(Y.GetEntries().Slice())), "same entries")
	vx.Assert("C01", sameSet(hashSet(X.Heads().Slice()), hashSet(Y.Heads().Slice())), "same heads")
	xv, yv := X.Values().Slice(), Y.Values().Slice()
	vx.Assert("C01", len(xv) == len(yv), "same length")
	for i := range xv {
		if i < len(yv) {
			vx.Assert("C01", xv[i].GetHash().String() == yv[i].GetHash().String(), "same linearisation")
		}
	}
	vx.Cover("hist-done")
}

var _ = register("H_smoke", H_smoke)
var _ = register("H_hist", H_hist)
var _ = register("H_hist2", H_hist2)
var _ = register("H_hist3", H_hist3)
