//go:build verif

package zz_verif

import (
	"sort"

	ipfslog "berty.tech/go-ipfs-log"
	"berty.tech/go-ipfs-log/accesscontroller"
	"berty.tech/go-ipfs-log/enc"
	"berty.tech/go-ipfs-log/entry"
	idp "berty.tech/go-ipfs-log/identityprovider"
	"berty.tech/go-ipfs-log/iface"
	"berty.tech/go-ipfs-log/internal/vx"
	"berty.tech/go-ipfs-log/io/cbor"
	"github.com/ipfs/go-cid"
)

// ---- history driver: R replicas of one log id, K symbolic steps of append / join / reload ----
//
// Every state examined is produced by the real exported operations, so it is reachable by
// construction. The step kind is a vx.Choice (decision variable, all values explored); hash ranks,
// and with SYMCLOCK the initial clock values, are SMT variables.

const (
	opAppend      = 0
	opJoin        = 1
	opReload      = 2
	opSetID       = 3
	opJoinPartial = 4
	opJoinOlder   = 5
	opJoinFresh   = 6
	opFork        = 7
)

type histCfg struct {
	R, K, W   int
	sort      int
	symClock  bool
	shareOpts bool // the replicas are created from ONE LogOptions value (or value copies of it made after its first use)
	reload    bool // step kind "reload": rebuild the replica from its entries with NewLog (what the loaders do)
	deny      bool // replica 0 refuses entries signed by the last writer
	conc      int  // LogOptions.Concurrency of the replicas (0 = default)
	mixIO     bool // with realIO: replicas use different codec configurations
	fork      bool // step kind "fork": replica dst is replaced by a new log built from replica src's GetEntries() (both stay live)
	denyP0    bool // only replica 0 refuses the denyP-th payload (the others create and hold that entry)
	closing   bool // after the K steps every replica merges a fresh single-entry log of its own writer (one more observed step each)
	pcAlt     int  // if non-zero: each append uses the default pointer count or this one
	pcN       int  // number of pointer-count alternatives tried at each append (1 = default only)
	emptyAt   int  // index of the append that carries an empty payload (-1 = none)
	realIO    bool // the real default CBOR codec over the store's DAG service and real (keystore) identities
	setID     bool // step kind "set identity": the replica switches to the next writer identity
	denyP     int  // every replica refuses the entry carrying the denyP-th payload: a refused local append (-1 = none)
	older     bool // step kind "join older": merge a log holding the source's entries without its heads (what loading an older hash yields)
	partial   bool // step kind "join partial": merge a log holding only the source's head entries (what a length-limited load yields)
}

func histParams() histCfg {
	return histCfg{R: vx.Param("R", 2), K: vx.Param("K", 3), W: vx.Param("W", 2), sort: vx.Param("SORT", sortHash),
		symClock: vx.Param("SYMCLOCK", 0) == 1, reload: vx.Param("RELOAD", 0) == 1, deny: vx.Param("DENY", 0) == 1, pcN: vx.Param("PCN", 1), emptyAt: vx.Param("EMPTYAT", -1), realIO: vx.Param("REALIO", 0) == 1, setID: vx.Param("SETID", 0) == 1, partial: vx.Param("PARTIAL", 0) >= 1, older: vx.Param("PARTIAL", 0) == 2, denyP: vx.Param("DENYP", -1), pcAlt: vx.Param("PCALT", 0), denyP0: vx.Param("DENYP0", 0) == 1, closing: vx.Param("CLOSE", 0) == 1, fork: vx.Param("FORKOP", 0) == 1, mixIO: vx.Param("MIXIO", 0) == 1, conc: vx.Param("LOGCONC", 0), shareOpts: vx.Param("SHAREOPTS", 0) == 1}
}

var pcTable = []int{0, 2, 4, 3, 8, -1, 16, 1}

type hist struct {
	cfg     histCfg
	api     *memAPI
	ids     []*idp.Identity
	logs    []*ipfslog.IPFSLog
	acs     []accesscontroller.Interface
	cur     []int // current writer identity of each replica
	step    int
	nAppend int
	// last operation
	kind, dst, src, pc int
	res                iface.IPFSLogEntry
	err                error
}

func (h *hist) sortFn() iface.EntrySortFn { return pickSort(h.cfg.sort) }

func (h *hist) writerOf(r int) *idp.Identity {
	if r < len(h.cur) {
		return h.ids[h.cur[r]]
	}
	return h.ids[r%h.cfg.W]
}

// io returns the codec the history's logs use.
// ioFor: the codec of replica r (MIXIO: odd replicas use the link-encrypting codec, even ones the default).
func (h *hist) ioFor(r int) iface.IO {
	if h.cfg.realIO && h.cfg.mixIO && r%2 == 1 {
		c, err := cbor.IO(&entry.Entry{}, &entry.LamportClock{})
		if err != nil {
			panic(err)
		}
		k, err := enc.NewSecretbox(linkKeyBytes(5))
		if err != nil {
			panic(err)
		}
		return c.ApplyOptions(&cbor.Options{LinkKey: k})
	}
	return h.io()
}

func (h *hist) io() iface.IO {
	if h.cfg.realIO {
		c, err := cbor.IO(&entry.Entry{}, &entry.LamportClock{})
		if err != nil {
			panic(err)
		}
		return c
	}
	return &atomIO{api: h.api}
}

func newHist(cfg histCfg) *hist {
	h := &hist{cfg: cfg, api: newMemAPI(), ids: mockIdentities(cfg.W)}
	if cfg.realIO {
		h.ids, _ = realIdentities([]string{"userA", "userB", "userC"}[:cfg.W]...)
	}
	for r := 0; r < cfg.R; r++ {
		h.cur = append(h.cur, r%cfg.W)
	}
	var shared *ipfslog.LogOptions
	if cfg.shareOpts {
		// a caller that keeps one options value around: it has been through NewLog once already (for a log nobody
		// uses), every replica is created from it or from a value copy of it
		shared = &ipfslog.LogOptions{SortFn: h.sortFn(), IO: h.io(), Concurrency: uint(cfg.conc)}
		newLogOpt(h.api, h.writerOf(0), shared)
	}
	for r := 0; r < cfg.R; r++ {
		o := &ipfslog.LogOptions{SortFn: h.sortFn(), IO: h.ioFor(r), Concurrency: uint(cfg.conc)}
		if shared != nil && !(cfg.realIO && cfg.mixIO) {
			o = shared
			if (cfg.deny && r == 0 && cfg.W > 1) || (cfg.denyP >= 0 && (r == 0 || !cfg.denyP0)) || cfg.symClock {
				c := *shared
				c.AccessController = nil
				o = &c
			}
			vx.Cover("shared-options")
		}
		if cfg.deny && r == 0 && cfg.W > 1 {
			o.AccessController = &denyWriter{id: h.ids[cfg.W-1].ID}
		}
		if cfg.denyP >= 0 && (r == 0 || !cfg.denyP0) {
			o.AccessController = &denyPayload{p: []byte{'p', byte('0' + cfg.denyP)}, inner: o.AccessController}
		}
		h.acs = append(h.acs, o.AccessController)
		if cfg.symClock {
			o.Clock = entry.NewLamportClock(h.writerOf(r).PublicKey, vx.IntRange("clock0", 0, 1<<62))
		}
		h.logs = append(h.logs, newLogOpt(h.api, h.writerOf(r), o))
	}
	return h
}

// strictTotal reports whether the configured ordering is a strict total order on every entry set this
// history can produce: always for the hash tie-break; for last/first-write-wins when no two entries can
// share (clock id, time), i.e. every replica has its own writer key and replicas are never rebuilt.
func (h *hist) strictTotal() bool {
	return h.cfg.sort == sortHash || (h.cfg.W >= h.cfg.R && !h.cfg.reload && !h.cfg.symClock && !h.cfg.setID)
}

// run performs K steps; pre/post are the property-specific observers.
func (h *hist) run(pre func(h *hist), post func(h *hist)) {
	R := h.cfg.R
	nOps := R + R*(R-1)
	if h.cfg.reload {
		nOps += R
	}
	if h.cfg.setID {
		nOps += R
	}
	base := nOps
	if h.cfg.partial {
		nOps += R * (R - 1)
	}
	baseOlder := nOps
	if h.cfg.older {
		nOps += R * (R - 1)
	}
	baseFork := nOps
	if h.cfg.fork {
		nOps += R * (R - 1)
	}
	for s := 0; s < h.cfg.K; s++ {
		h.step = s
		op := 0
		if s > 0 {
			op = vx.Choice("op", nOps) // symmetry breaking: the first step is an append on replica 0
		}
		h.res, h.err, h.pc = nil, nil, 0
		switch {
		case op >= baseFork:
			k := op - baseFork
			h.kind, h.dst, h.src = opFork, k/(R-1), k%(R-1)
			if h.src >= h.dst {
				h.src++
			}
		case op >= baseOlder:
			k := op - baseOlder
			h.kind, h.dst, h.src = opJoinOlder, k/(R-1), k%(R-1)
			if h.src >= h.dst {
				h.src++
			}
		case op >= base:
			k := op - base
			h.kind, h.dst, h.src = opJoinPartial, k/(R-1), k%(R-1)
			if h.src >= h.dst {
				h.src++
			}
		case op < R:
			h.kind, h.dst, h.src = opAppend, op, -1
			if h.cfg.pcN > 1 {
				h.pc = pcTable[vx.Choice("pc", h.cfg.pcN)]
			} else if h.cfg.pcAlt != 0 {
				h.pc = []int{0, h.cfg.pcAlt}[vx.Choice("pc", 2)]
			}
		case op < R+R*(R-1):
			k := op - R
			h.kind, h.dst, h.src = opJoin, k/(R-1), k%(R-1)
			if h.src >= h.dst {
				h.src++
			}
		case h.cfg.reload && op < R+R*(R-1)+R:
			h.kind, h.dst, h.src = opReload, op-R-R*(R-1), -1
		default:
			h.kind, h.src = opSetID, -1
			h.dst = op - R - R*(R-1)
			if h.cfg.reload {
				h.dst -= R
			}
		}
		if pre != nil {
			pre(h)
		}
		switch h.kind {
		case opAppend:
			var opts *ipfslog.AppendOptions
			if h.pc != 0 {
				opts = &ipfslog.AppendOptions{PointerCount: h.pc}
			}
			payload := []byte{'p', byte('0' + h.nAppend)}
			if h.cfg.emptyAt == h.nAppend {
				payload = []byte{} // Append accepts an empty payload: such entries are reachable log states
			}
			h.res, h.err = h.logs[h.dst].Append(ctx, payload, opts)
			h.nAppend++
		case opJoin:
			_, h.err = h.logs[h.dst].Join(h.logs[h.src], -1)
		case opJoinPartial:
			part := newLogOpt(h.api, h.writerOf(h.src), &ipfslog.LogOptions{SortFn: h.sortFn(), IO: h.io(), Entries: orderedMapOf(h.logs[h.src].Heads().Slice())})
			_, h.err = h.logs[h.dst].Join(part, -1)
		case opJoinOlder:
			hs := hashSet(h.logs[h.src].Heads().Slice())
			var old []iface.IPFSLogEntry
			for _, e := range entriesOf(h.logs[h.src]) {
				if !hs[hstr(e)] {
					old = append(old, e)
				}
			}
			part := newLogOpt(h.api, h.writerOf(h.src), &ipfslog.LogOptions{SortFn: h.sortFn(), IO: h.io(), Entries: orderedMapOf(old)})
			_, h.err = h.logs[h.dst].Join(part, -1)
		case opFork:
			// two logs are opened from one and the same snapshot value (an application keeping the entries it was
			// given and opening the log twice): opening a log does not modify the entries it is given
			snap := h.logs[h.src].GetEntries()
			newLogOpt(h.api, h.writerOf(h.dst), &ipfslog.LogOptions{SortFn: h.sortFn(), IO: h.io(), Entries: snap})
			h.logs[h.dst] = newLogOpt(h.api, h.writerOf(h.dst), &ipfslog.LogOptions{SortFn: h.sortFn(), IO: h.io(), Entries: snap, AccessController: h.acs[h.dst]})
		case opSetID:
			h.cur[h.dst] = (h.cur[h.dst] + 1) % h.cfg.W
			h.logs[h.dst].SetIdentity(h.ids[h.cur[h.dst]])
		case opReload:
			old := h.logs[h.dst]
			h.logs[h.dst] = newLogOpt(h.api, h.writerOf(h.dst), &ipfslog.LogOptions{SortFn: h.sortFn(), IO: h.io(), Entries: old.GetEntries(), AccessController: h.acs[h.dst]})
		}
		// observations for native cross-validation of sampled paths
		vx.Observe("kind", h.kind)
		vx.ObserveB("err", h.err != nil)
		vx.ObserveS("values", payloads(h.logs[h.dst].Values().Slice()))
		vx.Observe("heads", h.logs[h.dst].Heads().Len())
		if post != nil {
			post(h)
		}
	}
	if h.cfg.closing {
		for r := 0; r < R; r++ {
			h.step++
			h.kind, h.dst, h.src, h.res, h.err, h.pc = opJoinFresh, r, -1, nil, nil, 0
			if pre != nil {
				pre(h)
			}
			fresh := newLogOpt(h.api, h.writerOf(r), &ipfslog.LogOptions{SortFn: h.sortFn(), IO: h.io()})
			if _, err := fresh.Append(ctx, []byte{'f', byte('0' + r)}, nil); err != nil {
				panic(err)
			}
			_, h.err = h.logs[r].Join(fresh, -1)
			vx.ObserveB("err", h.err != nil)
			vx.ObserveS("values", payloads(h.logs[r].Values().Slice()))
			vx.Observe("heads", h.logs[r].Heads().Len())
			if post != nil {
				post(h)
			}
		}
	}
	vx.Cover("history-complete")
}

// propOverride attributes the shared structural predicates (checkHeads, checkValues) to the property whose
// harness calls them (e.g. C13 uses them on the state after concurrent operations).
var propOverride string

func pp(p string) string {
	if propOverride != "" {
		return propOverride
	}
	return p
}

func entriesOf(l *ipfslog.IPFSLog) []iface.IPFSLogEntry { return l.GetEntries().Slice() }

// ---- C02: heads are exactly the unreferenced entries ----

func checkHeads(l iface.IPFSLog, what string) {
	es := l.GetEntries().Slice()
	want := refHeads(es)
	hs := l.Heads().Slice()
	vx.Assert(pp("C02"), sameSet(hashSet(hs), want), "Heads() are exactly the entries no other entry of the log names as predecessor ("+what+")")
	vx.Assert(pp("C02"), len(hs) == len(hashSet(hs)), "Heads() contains no duplicate ("+what+")")
	vx.Assert(pp("C02"), sameSet(hashSet(l.RawHeads().Slice()), want), "RawHeads() are exactly the unreferenced entries ("+what+")")
	vx.Assert(pp("C02"), sameSet(cidSet(l.ToSnapshot().Heads), want), "ToSnapshot().Heads are exactly the unreferenced entries ("+what+")")
	vx.Assert(pp("C02"), (len(hs) == 0) == (len(es) == 0), "heads are non-empty iff the log is non-empty ("+what+")")
	vx.Assert(pp("C02"), subset(hashSet(hs), hashSet(es)), "every head is an entry of the log ("+what+")")
	if len(es) > 0 {
		jl := l.ToJSONLog()
		vx.Assert(pp("C02"), sameSet(cidSet(jl.Heads), want), "ToJSONLog().Heads are exactly the unreferenced entries ("+what+")")
	}
}

func H_C02_hist() {
	h := newHist(histParams())
	h.run(nil, func(h *hist) {
		for _, l := range h.logs {
			checkHeads(l, "after a history step")
		}
		if h.kind == opAppend && h.err == nil {
			vx.Cover("append")
		}
		if h.kind == opJoin && h.err == nil {
			vx.Cover("join")
		}
	})
}

// ---- C03: Values() is a complete, duplicate-free, causally ordered, sorted linearisation ----

func checkValues(h *hist, l *ipfslog.IPFSLog, what string) {
	es := l.GetEntries().Slice()
	v := l.Values().Slice()
	vx.Assert(pp("C03"), len(v) == len(es), "Values() has one element per entry of the log ("+what+")")
	vx.Assert(pp("C03"), sameSet(hashSet(v), hashSet(es)), "Values() contains exactly the entries of the log, each once ("+what+")")
	pos := map[string]int{}
	for i, e := range v {
		pos[hstr(e)] = i
	}
	ok := true
	for i, e := range v {
		for _, n := range e.GetNext() {
			if p, in := pos[n.String()]; in && p >= i {
				ok = false
			}
		}
	}
	// causal placement and sortedness are only required of orderings that respect causality (hash tie-break,
	// last-write-wins): first-write-wins orders an entry BEFORE its predecessors, the two clauses contradict
	// each other for it whatever the implementation does
	if h.cfg.sort != sortFWW {
		vx.Assert(pp("C03"), ok, "every entry comes after all of its predecessors that are in the log ("+what+")")
	}
	sv := l.ToSnapshot().Values
	vx.Assert(pp("C03"), sameSeq(sv, v), "ToSnapshot().Values equals Values() ("+what+")")
	if !h.strictTotal() {
		return
	}
	cmp := h.sortFn()
	if h.cfg.sort != sortFWW {
		for i := 0; i+1 < len(v); i++ {
			r, err := cmp(v[i], v[i+1])
			vx.Assert(pp("C03"), err == nil && r < 0, "Values() is sorted by the configured ordering ("+what+")")
		}
	}
	// arrival-order independence: the same entries inserted in reverse order linearise identically
	rev := entry.NewOrderedMap()
	for i := len(es) - 1; i >= 0; i-- {
		rev.Set(hstr(es[i]), es[i])
	}
	l2 := newLogOpt(h.api, h.ids[0], &ipfslog.LogOptions{SortFn: cmp, Entries: rev})
	vx.Assert(pp("C03"), sameSeq(l2.Values().Slice(), v), "Values() depends only on the set of entries, not on their arrival order ("+what+")")
}

func H_C03_hist() {
	h := newHist(histParams())
	h.run(nil, func(h *hist) {
		for _, l := range h.logs {
			checkValues(h, l, "after a history step")
		}
		if h.kind == opJoin && h.err != nil {
			vx.Cover("rejected-join")
		}
		if h.kind == opJoin && h.err == nil {
			vx.Cover("join")
		}
	})
}

// ---- C04: every appended entry dominates the log it was appended to ----

func ilog2(n int) int {
	k := 0
	for n > 1 {
		n /= 2
		k++
	}
	return k
}

func H_C04_hist() {
	h := newHist(histParams())
	var heads, before []iface.IPFSLogEntry
	h.run(func(h *hist) {
		if h.kind == opAppend {
			heads = h.logs[h.dst].Heads().Slice()
			before = entriesOf(h.logs[h.dst])
		}
	}, func(h *hist) {
		if h.kind != opAppend {
			return
		}
		vx.Assert("C04", h.err == nil && h.res != nil, "Append on a permissive log succeeds")
		if h.err != nil || h.res == nil {
			return
		}
		e, l := h.res, h.logs[h.dst]
		vx.Cover("append-checked")
		if len(before) > 0 && len(heads) > 1 {
			vx.Cover("append-on-forked-log")
		}
		vx.Assert("C04", sameSet(cidSet(e.GetNext()), hashSet(heads)), "the new entry names exactly the previous heads as predecessors")
		vx.Assert("C04", len(e.GetNext()) == len(heads), "the predecessor list has no duplicates")
		id := e.GetClock().GetID()
		pk := h.writerOf(h.dst).PublicKey
		vx.Assert("C04", string(id) == string(pk), "the clock id is the writer's public key")
		t := e.GetClock().GetTime()
		for _, o := range before {
			vx.Assert("C04", t > o.GetClock().GetTime(), "the clock time is strictly greater than that of every entry already in the log")
		}
		hs := l.Heads().Slice()
		vx.Assert("C04", len(hs) == 1 && hstr(hs[0]) == hstr(e), "the new entry is the log's single head")
		got, in := l.Get(e.GetHash())
		vx.Assert("C04", in && got != nil && hstr(got) == hstr(e), "the new entry is in the log")
		// skip references
		past := refPast(keys(hashSet(heads)), before)
		refs := e.GetRefs()
		vx.Assert("C04", subset(cidSet(refs), past), "every skip reference is an entry of the new entry's causal past")
		nx := cidSet(e.GetNext())
		for _, r := range refs {
			vx.Assert("C04", !nx[r.String()], "skip references are distinct from the predecessors")
		}
		vx.Assert("C04", len(cidSet(refs)) == len(refs), "skip references contain no duplicate")
		pc := h.pc
		if pc == 0 {
			pc = 1
		}
		if pc >= 1 {
			vx.Assert("C04", len(refs) <= ilog2(pc)+2, "at most log2(pointer count)+2 skip references")
		} else {
			vx.Assert("C04", len(refs) == 0, "no skip references for a non-positive pointer count")
		}
		if len(refs) > 0 {
			vx.Cover("append-with-refs")
		}
	})
}

func keys(m map[string]bool) []string {
	var out []string
	for k := range m {
		out = append(out, k)
	}
	return out
}

// ---- C05: append-only ----

type entrySnap struct {
	hash, logID, payload, key, sig, clockID string
	next, refs                              []string
	v                                       uint64
	time                                    int
	c                                       cid.Cid
	extra                                   []string // additional data, sorted "key=value"
}

func snapEntry(e iface.IPFSLogEntry) entrySnap {
	s := entrySnap{c: e.GetHash(), hash: hstr(e), logID: e.GetLogID(), payload: string(e.GetPayload()), key: string(e.GetKey()), sig: string(e.GetSig()),
		clockID: string(e.GetClock().GetID()), v: e.GetV(), time: e.GetClock().GetTime()}
	for _, n := range e.GetNext() {
		s.next = append(s.next, n.String())
	}
	for _, r := range e.GetRefs() {
		s.refs = append(s.refs, r.String())
	}
	for k, v := range e.GetAdditionalData() {
		s.extra = append(s.extra, k+"="+v)
	}
	sort.Strings(s.extra)
	return s
}

func sameStrs(a, b []string) bool {
	if len(a) != len(b) {
		return false
	}
	for i := range a {
		if a[i] != b[i] {
			return false
		}
	}
	return true
}

func (s entrySnap) equalTo(e iface.IPFSLogEntry) bool {
	t := snapEntry(e)
	return vx.And(s.hash == t.hash && s.logID == t.logID && s.payload == t.payload && s.key == t.key && s.sig == t.sig && s.clockID == t.clockID && s.v == t.v &&
		sameStrs(s.next, t.next) && sameStrs(s.refs, t.refs) && sameStrs(s.extra, t.extra), s.time == t.time)
}

type logSnap struct {
	listing []string // hashes in index order (GetEntries().Slice())
	entries []entrySnap
	values  []iface.IPFSLogEntry
	n       int
}

func snapLog(l *ipfslog.IPFSLog) logSnap {
	s := logSnap{values: l.Values().Slice(), n: l.Len()}
	for _, e := range entriesOf(l) {
		if e == nil {
			continue // reported by checkListing
		}
		s.entries = append(s.entries, snapEntry(e))
		s.listing = append(s.listing, hstr(e))
	}
	return s
}

// checkListing: the index listing of a log names each of its entries exactly once.
func checkListing(l *ipfslog.IPFSLog) []string {
	es := l.GetEntries()
	sl := es.Slice()
	seen := map[string]bool{}
	ok := len(sl) == l.Len() && len(es.Keys()) == l.Len()
	var out []string
	for i, e := range sl {
		if e == nil {
			ok = false
			continue
		}
		k := hstr(e)
		if seen[k] || (i < len(es.Keys()) && es.Keys()[i] != k) {
			ok = false
		}
		seen[k] = true
		out = append(out, k)
	}
	vx.Assert("C05", ok, "the index listing (GetEntries) names each entry of the log exactly once")
	return out
}

func H_C05_hist() {
	h := newHist(histParams())
	var snaps []logSnap
	h.run(func(h *hist) {
		snaps = nil
		for _, l := range h.logs {
			snaps = append(snaps, snapLog(l))
		}
	}, func(h *hist) {
		if h.kind == opReload {
			return // a rebuilt replica is a new log instance
		}
		for r, l := range h.logs {
			s := snaps[r]
			listing := checkListing(l)
			if h.kind == opFork && r == h.dst {
				continue // a new log instance took this slot
			}
			if r != h.dst {
				vx.Assert("C05", sameStrs(listing, s.listing), "an operation on one log instance does not alter the index listing of another instance")
			}
			for _, es := range s.entries {
				c := es.c
				got, ok := l.Get(c)
				vx.Assert("C05", ok && got != nil, "an entry once in the log stays retrievable by its hash")
				if ok && got != nil {
					vx.Assert("C05", es.equalTo(got), "a stored entry keeps identical content")
				}
				vx.Assert("C05", l.Has(c), "Has() keeps reporting a stored entry")
			}
			vx.Assert("C05", l.Len() >= s.n, "the entry count never decreases")
			if r != h.dst {
				vx.Assert("C05", l.Len() == s.n && sameSeq(l.Values().Slice(), s.values), "an operation on one log instance does not alter another instance")
			}
			if h.strictTotal() {
				vx.Assert("C05", isSubsequence(s.values, l.Values().Slice()), "the previous linearised view is a subsequence of the new one")
			}
		}
		if h.kind == opJoin && h.err == nil {
			vx.Cover("join")
		}
		// snapshot accessors return copies: mutating them does not change the log
		l := h.logs[h.dst]
		n := l.Len()
		cp := l.GetEntries()
		cp.Set("bogus", &entry.Entry{Hash: vx.Cid(90), LogID: "X"})
		vx.Assert("C05", l.Len() == n && l.GetEntries().Len() == n, "mutating the map returned by GetEntries() does not change the log")
		// the same for the linearised view and the heads: what the accessors return is the caller's to modify
		vals := payloads(l.Values().Slice())
		vm := l.Values()
		vm.Reverse()
		vm.Set("bogus", &entry.Entry{Hash: vx.Cid(91), LogID: "X"})
		hm := l.Heads()
		hm.Set("bogus", &entry.Entry{Hash: vx.Cid(92), LogID: "X"})
		vx.Assert("C05", payloads(l.Values().Slice()) == vals && l.Values().Len() == n && l.Heads().Len() == len(hashSet(l.Heads().Slice())) && !hashSet(l.Heads().Slice())[vx.Cid(92).String()],
			"mutating what Values() or Heads() returned does not change the log")
	})
}

// ---- C01: convergence ----

func freshObserver(h *hist, w int) *ipfslog.IPFSLog {
	return newLogOpt(h.api, h.ids[w%h.cfg.W], &ipfslog.LogOptions{SortFn: h.sortFn()})
}

func H_C01_hist() {
	h := newHist(histParams())
	h.run(nil, nil)
	R := h.cfg.R
	// union of everything the replicas hold
	all := map[string]bool{}
	var allEntries []iface.IPFSLogEntry
	for _, l := range h.logs {
		for _, e := range entriesOf(l) {
			if !all[hstr(e)] {
				all[hstr(e)] = true
				allEntries = append(allEntries, e)
			}
		}
	}
	// the replicas themselves: any two that hold the same set of entries expose the same heads and values
	for a := 0; a < R; a++ {
		for b := a + 1; b < R; b++ {
			ea, eb := hashSet(entriesOf(h.logs[a])), hashSet(entriesOf(h.logs[b]))
			if !sameSet(ea, eb) {
				continue
			}
			vx.Assert("C01", sameSet(hashSet(h.logs[a].Heads().Slice()), hashSet(h.logs[b].Heads().Slice())), "two replicas holding the same entries have the same heads")
			if h.strictTotal() {
				vx.Assert("C01", sameSeq(h.logs[a].Values().Slice(), h.logs[b].Values().Slice()), "two replicas holding the same entries have the same linearised values under a strict total ordering")
			}
			vx.Cover("replicas-with-equal-entries")
		}
	}
	// X absorbs the replicas in index order; Y in a symbolic permutation, with a symbolic grouping
	// (directly, or the first two through a temporary log = associativity) and a repeated merge (idempotence).
	X := freshObserver(h, 0)
	for r := 0; r < R; r++ {
		_, err := X.Join(h.logs[r], -1)
		vx.Assert("C01", err == nil, "merging a valid replica succeeds")
	}
	var perm []int
	if R == 2 {
		perm = [][]int{{0, 1}, {1, 0}}[vx.Choice("perm", 2)]
	} else {
		perm = perms3[vx.Choice("perm", 6)]
	}
	Y := freshObserver(h, 1)
	grouping := vx.Choice("grouping", 2)
	if grouping == 1 {
		T := freshObserver(h, 0)
		T.Join(h.logs[perm[0]], -1)
		T.Join(h.logs[perm[1]], -1)
		Y.Join(T, -1)
		for _, r := range perm[2:] {
			Y.Join(h.logs[r], -1)
		}
		vx.Cover("grouped-merge")
	} else {
		for _, r := range perm {
			Y.Join(h.logs[r], -1)
		}
	}
	Y.Join(h.logs[perm[0]], -1) // repetition
	xe, ye := entriesOf(X), entriesOf(Y)
	vx.Assert("C01", sameSet(hashSet(xe), all), "a replica that merged every replica holds the union of their entries")
	vx.Assert("C01", sameSet(hashSet(xe), hashSet(ye)), "same set of entries whatever the order, grouping or repetition of merges")
	xh, yh := X.Heads().Slice(), Y.Heads().Slice()
	vx.Assert("C01", sameSet(hashSet(xh), hashSet(yh)), "same heads whatever the order, grouping or repetition of merges")
	vx.Assert("C01", sameSet(hashSet(xh), refHeads(allEntries)), "heads of the merged replicas are the unreferenced entries of the union")
	if h.strictTotal() {
		vx.Assert("C01", sameSeq(X.Values().Slice(), Y.Values().Slice()), "same linearised values under a strict total ordering")
		vx.Assert("C01", sameSeq(xh, yh), "same sorted head sequence under a strict total ordering")
	}
	// merging with itself, an empty log, or a log of another id changes nothing
	before := snapLog(X)
	bh := hashSet(X.Heads().Slice())
	X.Join(X, -1)
	X.Join(freshObserver(h, 1), -1)
	other := newLogOpt(h.api, h.ids[0], &ipfslog.LogOptions{ID: "other", SortFn: h.sortFn()})
	other.Append(ctx, []byte("zz"), nil)
	X.Join(other, -1)
	X.Join(Y, -1) // already merged state
	vx.Assert("C01", X.Len() == before.n && sameSeq(X.Values().Slice(), before.values) && sameSet(hashSet(X.Heads().Slice()), bh),
		"merging with itself, an empty log, a log of another id or an already merged log changes nothing")
	vx.Cover("exchange-done")
}

var _ = register("H_C01_hist", H_C01_hist)
var _ = register("H_C02_hist", H_C02_hist)
var _ = register("H_C03_hist", H_C03_hist)
var _ = register("H_C04_hist", H_C04_hist)
var _ = register("H_C05_hist", H_C05_hist)

// H_C02_partial: a partial log (what a length-limited load or an explicit entry set yields: the newest m entries
// of a chain) merges an older replica of the same chain; the heads are still exactly the entries nothing in the
// log names as predecessor. (Beyond the property's strict quantifier - the state is reached through a loader, not
// only through appends and merges - but the statement is about the log's entries and holds for such logs too.)
func H_C02_partial() {
	h := newHist(histCfg{R: 1, K: 0, W: 1, sort: vx.Param("SORT", sortLWW), pcN: 1, emptyAt: -1, denyP: -1})
	N := vx.Param("N", 5)
	writer := h.logs[0]
	stale := freshObserver(h, 0)
	at := 1 + vx.Choice("staleAfter", N-1)
	pc := []int{1, 2, 4}[vx.Choice("pc", 3)]
	var chain []iface.IPFSLogEntry
	for i := 0; i < N; i++ {
		e, err := writer.Append(ctx, []byte{'e', byte('1' + i)}, &ipfslog.AppendOptions{PointerCount: pc})
		if err != nil {
			panic(err)
		}
		chain = append(chain, e)
		if i+1 == at {
			if _, err := stale.Join(writer, -1); err != nil {
				panic(err)
			}
		}
	}
	m := 1 + vx.Choice("keep", N)
	kept := chain[N-m:]
	o := &ipfslog.LogOptions{SortFn: h.sortFn(), IO: h.io(), Entries: orderedMapOf(kept)}
	if vx.Choice("explicitHeads", 2) == 1 {
		o.Heads = []iface.IPFSLogEntry{chain[N-1]}
	}
	P := newLogOpt(h.api, h.writerOf(0), o)
	propOverride = []string{"C02", "C01"}[vx.Param("AS", 0)] // merging a replica whose entries the log already holds changes nothing (C01), heads stay exact (C02)
	checkHeads(P, "partial log")
	if vx.Choice("appendFirst", 2) == 1 {
		// the log opened from entries is appended to before it ever merges anything
		if _, err := P.Append(ctx, []byte("first"), nil); err != nil {
			panic(err)
		}
		checkHeads(P, "log opened from entries, after an append")
	}
	_, err := P.Join(stale, -1)
	vx.Assert(pp("C02"), err == nil, "merging an older replica into a partial log succeeds")
	checkHeads(P, "partial log after merging an older replica")
	e, err := P.Append(ctx, []byte("next"), nil)
	vx.Assert(pp("C02"), err == nil && e != nil, "appending to the partial log succeeds")
	if err == nil {
		checkHeads(P, "partial log after merge and append")
	}
	vx.Cover("partial-merged-older")
}

var _ = register("H_C02_partial", H_C02_partial)
