//go:build verif

package zz_verif

import (
	"bytes"
	"context"

	ipfslog "berty.tech/go-ipfs-log"
	"berty.tech/go-ipfs-log/accesscontroller"
	"berty.tech/go-ipfs-log/enc"
	"berty.tech/go-ipfs-log/entry"
	idp "berty.tech/go-ipfs-log/identityprovider"
	"berty.tech/go-ipfs-log/iface"
	"berty.tech/go-ipfs-log/internal/vx"
	"berty.tech/go-ipfs-log/io/cbor"
	"github.com/ipfs/go-cid"
	format "github.com/ipfs/go-ipld-format"
	coreiface "github.com/ipfs/kubo/core/coreiface"
	"github.com/libp2p/go-libp2p/core/crypto"
)

const (
	badNoKey = iota
	badNoSig
	badOtherSig
	badPayload
	badForeignTampered // log id changed on the in-memory copy (signature no longer matches either)
	badForeignGenuine  // entry validly signed for another log id
	badDenied          // written by an identity the destination's access controller refuses
	badDeniedPayload   // genuine entry of a permitted writer whose payload the destination's controller refuses (a policy on the entry itself)
	badRelabelled      // key and identity replaced by another writer's; the identity object is bound to a provider of another type that resolves every key to the real signer's
	badKeySwapped      // the key field replaced by another (permitted) writer's; identity and signature kept: an access decision on the key would credit the wrong writer
	badKinds
)

var badNames = []string{"no-key", "no-signature", "signature-of-another-entry", "payload-changed", "foreign-log-id(tampered)", "foreign-log-id(genuine)", "denied-writer", "denied-payload", "relabelled-with-foreign-provider", "key-of-another-writer"}

func orderedMapOf(es []iface.IPFSLogEntry) iface.IPFSLogOrderedEntries {
	m := entry.NewOrderedMap()
	for _, e := range es {
		m.Set(hstr(e), e)
	}
	return m
}

type logState struct {
	entries map[string]bool
	heads   map[string]bool
	values  []iface.IPFSLogEntry
	clock   int
	n       int
}

func stateOf(l *ipfslog.IPFSLog) logState {
	return logState{entries: hashSet(entriesOf(l)), heads: hashSet(l.Heads().Slice()), values: l.Values().Slice(), clock: l.Clock.GetTime(), n: l.Len()}
}

func (s logState) same(t logState) bool {
	return sameSet(s.entries, t.entries) && sameSet(s.heads, t.heads) && sameSeq(s.values, t.values) && s.clock == t.clock && s.n == t.n
}

func payloadSeq(es []iface.IPFSLogEntry) string { return payloads(es) }

// plainIO is an iface.IO without the optional PreSign step (like the legacy protobuf codec).
type plainIO struct{ io *atomIO }

func (p plainIO) Write(c context.Context, a coreiface.CoreAPI, obj interface{}, o *iface.WriteOpts) (cid.Cid, error) {
	return p.io.Write(c, a, obj, o)
}
func (p plainIO) Read(c context.Context, a coreiface.CoreAPI, id cid.Cid) (format.Node, error) {
	return p.io.Read(c, a, id)
}
func (p plainIO) DecodeRawEntry(n format.Node, h cid.Cid, pr idp.Interface) (iface.IPFSLogEntry, error) {
	return p.io.DecodeRawEntry(n, h, pr)
}
func (p plainIO) DecodeRawJSONLog(n format.Node) (*iface.JSONLog, error) {
	return p.io.DecodeRawJSONLog(n)
}

// pickIO: codec configuration. CODEC=1: the real default CBOR codec; CODEC=2: the real CBOR codec with a link
// key (encrypted links); NOPRESIGN=1: an IO without the optional PreSign step (like the legacy protobuf codec);
// default: the atom-CID store.
func pickIO(api *memAPI) iface.IO {
	switch vx.Param("CODEC", 0) {
	case 1, 2:
		base, err := cbor.IO(&entry.Entry{}, &entry.LamportClock{})
		if err != nil {
			panic(err)
		}
		if vx.Param("CODEC", 0) == 2 {
			k, _ := enc.NewSecretbox(linkKeyBytes(5))
			return base.ApplyOptions(&cbor.Options{LinkKey: k})
		}
		return base
	}
	if vx.Param("NOPRESIGN", 0) == 1 {
		return plainIO{io: &atomIO{api: api}}
	}
	return &atomIO{api: api}
}

// H_C06: merge admits only verified, authorised entries of the log's id, and is all-or-nothing.
// Source: a chain of nB entries signed through the repository's own path (real identity provider),
// one of which may be replaced by an invalid twin of a symbolic kind at a symbolic position; the
// destination already holds a symbolic prefix of the chain.
func H_C06() {
	ids, _ := realIdentities("userA", "userB", "userC")
	api := newMemAPI()
	io := pickIO(api)
	maxB := vx.Param("MAXB", 3)
	nB := 1 + vx.Choice("nB", maxB)
	shared := vx.Choice("shared", nB)
	bad := vx.Choice("bad", nB+1)
	kind := -1
	if bad < nB {
		vx.Assume(bad >= shared) // the destination's own prefix is genuine
		kind = vx.Choice("kind", badKinds)
		vx.Sig("invalid=" + badNames[kind])
		switch {
		case bad == nB-1:
			vx.Sig("position=head")
		case bad == shared:
			vx.Sig("position=oldest-new")
		default:
			vx.Sig("position=middle")
		}
	} else {
		vx.Sig("invalid=none")
	}
	// ---- build the genuine chain ----
	var chain []iface.IPFSLogEntry
	var prev []cid.Cid
	for i := 0; i < nB; i++ {
		writer := ids[i%2]
		logID := "X"
		if i == bad && kind == badDenied {
			writer = ids[2]
		}
		if i == bad && kind == badForeignGenuine {
			logID = "other"
		}
		e, err := entry.CreateEntryWithIO(ctx, api, writer, &entry.Entry{LogID: logID, Payload: []byte{'b', byte('0' + i)}, Next: prev,
			Clock: entry.NewLamportClock(writer.PublicKey, i+1)}, nil, io)
		vx.Assert("C06", err == nil, "creating a signed entry succeeds")
		if err != nil {
			return
		}
		chain = append(chain, e)
		prev = []cid.Cid{e.GetHash()}
	}
	// ---- the genuine entries have been seen and verified in this process before (another replica merged the
	// honest log): whatever an implementation remembers about verified entries must not help a forged twin ----
	if vx.Param("WARM", 1) == 1 {
		honest := newLogOpt(api, ids[1], &ipfslog.LogOptions{ID: "X", IO: io, Entries: orderedMapOf(chain)})
		witness := newLogOpt(api, ids[0], &ipfslog.LogOptions{ID: "X", IO: io})
		witness.Join(honest, -1)
		for _, e := range chain {
			_ = e.Verify(ids[0].Provider, io)
		}
	}
	// ---- the source as offered to the merge: one entry possibly replaced by an invalid twin ----
	offered := append([]iface.IPFSLogEntry{}, chain...)
	if bad < nB {
		x := chain[bad].Copy()
		x.SetHash(chain[bad].GetHash())
		switch kind {
		case badNoKey:
			x.SetKey(nil)
		case badNoSig:
			x.SetSig(nil)
		case badOtherSig:
			o, err := entry.CreateEntryWithIO(ctx, api, ids[bad%2], &entry.Entry{LogID: "X", Payload: []byte("zz"), Clock: entry.NewLamportClock(ids[bad%2].PublicKey, 9)}, nil, io)
			vx.Assume(err == nil)
			x.SetSig(o.GetSig())
		case badPayload:
			x.SetPayload([]byte("forged"))
		case badForeignTampered:
			x.SetLogID("other")
		case badKeySwapped:
			x.SetKey(ids[(bad+1)%2].PublicKey)
		case badRelabelled:
			signer, other := ids[bad%2], ids[(bad+1)%2]
			pk, err := signer.Provider.UnmarshalPublicKey(signer.PublicKey)
			vx.Assume(err == nil)
			x.SetKey(other.PublicKey)
			x.SetIdentity(&idp.Identity{ID: other.ID, PublicKey: other.PublicKey, Signatures: other.Signatures, Type: "external",
				Provider: &foreignProvider{inner: other.Provider, key: pk}})
		}
		offered[bad] = x
	}
	B := newLogOpt(api, ids[1], &ipfslog.LogOptions{ID: "X", IO: io, Entries: orderedMapOf(offered)})
	var ac accesscontroller.Interface
	if vx.Param("DENYC", 1) == 1 {
		ac = &denyWriter{id: ids[2].ID}
	}
	if kind == badDeniedPayload {
		ac = &denyPayload{p: []byte{'b', byte('0' + bad)}, inner: ac}
	}
	mkFrom := func(m iface.IPFSLogOrderedEntries) *ipfslog.IPFSLog {
		return newLogOpt(api, ids[0], &ipfslog.LogOptions{ID: "X", IO: io, Entries: m, AccessController: ac,
			Concurrency: uint(vx.Param("CONC", 0))}) // 0 = the default (16); 1 = validation one entry at a time
	}
	mk := func() *ipfslog.IPFSLog { return mkFrom(orderedMapOf(chain[:shared])) }
	A, twin := mk(), mk()
	if vx.Param("SHAREMAP", 0) == 1 {
		// the caller built a second, permissive log from the very map it gave to A, and that log merges the source
		// first: what it accepted is its own business
		m := orderedMapOf(chain[:shared])
		A = mkFrom(m)
		sib := newLogOpt(api, ids[1], &ipfslog.LogOptions{ID: "X", IO: io, Entries: m})
		sib.Join(B, -1)
		vx.Cover("sibling-built-from-the-same-map")
	}
	// ---- reference: candidates = new entries reachable from the source's heads through entries of this log id ----
	cand := map[string]iface.IPFSLogEntry{}
	if nB > 0 {
		for i := nB - 1; i >= shared; i-- {
			if offered[i].GetLogID() != "X" {
				break // an entry of another log is never a candidate and ends the walk
			}
			cand[hstr(offered[i])] = offered[i]
		}
	}
	invalidCandidate := false
	if bad < nB {
		if _, in := cand[hstr(offered[bad])]; in && kind != badForeignGenuine && kind != badForeignTampered {
			invalidCandidate = true
		}
	}
	before := stateOf(A)
	_, err := A.Join(B, -1)
	after := stateOf(A)
	vx.Observe("nB", nB)
	vx.ObserveB("err", err != nil)
	vx.Observe("len", A.Len())
	if invalidCandidate {
		vx.Assert("C06", err != nil, "a merge with an invalid candidate entry returns an error")
		vx.Assert("C06", before.same(after), "a rejected merge leaves entries, heads, values and clock unchanged")
		vx.Cover("rejected")
	} else {
		vx.Assert("C06", err == nil, "a merge whose candidate entries are all valid succeeds")
		want := map[string]bool{}
		for k := range before.entries {
			want[k] = true
		}
		for k := range cand {
			want[k] = true
		}
		vx.Assert("C06", sameSet(after.entries, want), "a successful merge adds exactly the candidate entries")
		vx.Cover("accepted")
	}
	for _, e := range entriesOf(A) {
		vx.Assert("C06", e.GetLogID() == "X", "an entry carrying another log id is never added")
		vx.Assert("C06", e.GetIdentity() == nil || e.GetIdentity().ID != ids[2].ID || ac == nil, "an entry of a denied writer is never added")
		if kind == badDeniedPayload && bad >= shared {
			vx.Assert("C06", string(e.GetPayload()) != string([]byte{'b', byte('0' + bad)}), "an entry the controller refuses is never added")
		}
	}
	if err != nil {
		// "observably unchanged" includes the future: the log behaves like a twin that never saw the merge
		D := newLogOpt(api, ids[1], &ipfslog.LogOptions{ID: "X", IO: io})
		D.Append(ctx, []byte("d1"), nil)
		_, e1 := A.Join(D, -1)
		_, e2 := twin.Join(D, -1)
		A.Append(ctx, []byte("a9"), nil)
		twin.Append(ctx, []byte("a9"), nil)
		vx.Assert("C06", (e1 == nil) == (e2 == nil) && payloadSeq(A.Values().Slice()) == payloadSeq(twin.Values().Slice()) && A.Heads().Len() == twin.Heads().Len() && A.Len() == twin.Len(),
			"after a rejected merge the log behaves like one that never attempted it")
		vx.Cover("follow-up")
	}
}

// denyAll refuses every entry.
type denyAll struct{}

func (denyAll) CanAppend(accesscontroller.LogEntry, idp.Interface, accesscontroller.CanAppendAdditionalContext) error {
	return errDenied
}

var errDenied = errorString("denied")

type errorString string

func (e errorString) Error() string { return string(e) }

// H_C06_append: an append the controller denies returns an error and leaves entries and heads unchanged;
// every entry produced by Append verifies and merges into a permissive replica.
func H_C06_append() {
	ids, _ := realIdentities("userA", "userB")
	api := newMemAPI()
	io := pickIO(api)
	n := vx.Choice("n", vx.Param("MAXN", 3))
	A := newLogOpt(api, ids[0], &ipfslog.LogOptions{ID: "X", IO: io})
	for i := 0; i < n; i++ {
		e, err := A.Append(ctx, []byte{'a', byte('0' + i)}, &ipfslog.AppendOptions{PointerCount: vx.Param("PC", 1)})
		vx.Assert("C06", err == nil, "append on a permissive log succeeds")
		vx.Assert("C06", e.Verify(ids[0].Provider, io) == nil, "every entry produced by Append verifies")
	}
	// a second identity that carries the first one's provider (what decoding a stored entry with a loader's
	// provider yields: jsonable.Identity.ToPlain(provider)); its appends are signed with its own key
	idB := *ids[1]
	idB.Provider = ids[0].Provider
	B := newLogOpt(api, &idB, &ipfslog.LogOptions{ID: "X", IO: io})
	eb, err := B.Append(ctx, []byte("b0"), nil)
	vx.Assert("C06", err == nil && eb != nil, "append on a permissive log succeeds")
	if err == nil {
		vx.Assert("C06", eb.Verify(ids[0].Provider, io) == nil, "every entry produced by Append verifies (second identity through the same provider)")
		W := newLogOpt(api, ids[0], &ipfslog.LogOptions{ID: "X", IO: io})
		_, jerr := W.Join(B, -1)
		vx.Assert("C06", jerr == nil && W.Len() == 1, "entries produced by Append merge into a permissive replica (second identity through the same provider)")
	}
	// a denying controller on a log with the same content
	Dn := newLogOpt(api, ids[0], &ipfslog.LogOptions{ID: "X", IO: io, Entries: A.GetEntries(), AccessController: denyAll{}})
	before := stateOf(Dn)
	_, err = Dn.Append(ctx, []byte("nope"), nil)
	vx.Assert("C06", err != nil, "an append the controller denies returns an error")
	after := stateOf(Dn)
	vx.Assert("C06", sameSet(before.entries, after.entries) && sameSet(before.heads, after.heads) && sameSeq(before.values, after.values), "a denied append leaves entries and heads unchanged")
	// mergeable into a fresh permissive replica
	R := newLogOpt(api, ids[1], &ipfslog.LogOptions{ID: "X", IO: io})
	_, err = R.Join(A, -1)
	vx.Assert("C06", err == nil && R.Len() == n, "entries produced by Append merge into a permissive replica")
	vx.Cover("append-checked")
}

var _ = register("H_C06", H_C06)
var _ = register("H_C06_append", H_C06_append)

// foreignProvider: an identity provider of another type than the log's, as an entry handed over in memory may
// carry in its (unsigned) identity object; it resolves every key to the one key it manages.
type foreignProvider struct {
	inner idp.Interface
	key   crypto.PubKey
}

func (f *foreignProvider) GetID(c context.Context, o *idp.CreateIdentityOptions) (string, error) {
	return f.inner.GetID(c, o)
}
func (f *foreignProvider) SignIdentity(c context.Context, data []byte, id string) ([]byte, error) {
	return f.inner.SignIdentity(c, data, id)
}
func (f *foreignProvider) GetType() string                    { return "external" }
func (f *foreignProvider) VerifyIdentity(*idp.Identity) error { return nil }
func (f *foreignProvider) Sign(c context.Context, i *idp.Identity, b []byte) ([]byte, error) {
	return f.inner.Sign(c, i, b)
}
func (f *foreignProvider) UnmarshalPublicKey([]byte) (crypto.PubKey, error) { return f.key, nil }

// H_C05_rehash: a peer presents, as the head of its log, an entry that is validly signed but carries in its hash
// field the identifier of an entry the receiving log already holds (a buggy or hostile peer: when entries are
// handed over in memory nothing re-derives the identifier from the content). A merge only inserts identifiers the
// log does not hold: what the log returns for every identifier it held is byte-identical afterwards, and its
// view still contains the previous one.
func H_C05_rehash() {
	ids, _ := realIdentities("userA", "userB")
	api := newMemAPI()
	io := pickIO(api)
	A := newLogOpt(api, ids[0], &ipfslog.LogOptions{ID: "X", IO: io})
	const n = 3
	var held []iface.IPFSLogEntry
	for i := 0; i < n; i++ {
		e, err := A.Append(ctx, []byte{'a', byte('0' + i)}, nil)
		if err != nil {
			panic(err)
		}
		held = append(held, e)
	}
	victim := vx.Choice("victim", n-1) // an entry that has a successor in the log (the head's object is legitimately replaced by the merged head of the same identifier)
	F, err := entry.CreateEntryWithIO(ctx, api, ids[1], &entry.Entry{LogID: "X", Payload: []byte("forged"), Clock: entry.NewLamportClock(ids[1].PublicKey, 1)}, nil, io)
	vx.Assert("C05", err == nil, "creating a signed entry succeeds")
	if err != nil {
		return
	}
	f := F.Copy()
	f.SetHash(held[victim].GetHash())
	other := newLogOpt(api, ids[1], &ipfslog.LogOptions{ID: "X", IO: io, Entries: orderedMapOf([]iface.IPFSLogEntry{f}), Heads: []iface.IPFSLogEntry{f}})
	prev := payloadSeq(A.Values().Slice())
	A.Join(other, -1) // accepted or refused: either way nothing the log held changes
	for i, e := range held {
		got, ok := A.Get(e.GetHash())
		vx.Assert("C05", ok && got != nil, "an entry the log held is still retrievable by its hash")
		if got != nil {
			vx.Assert("C05", bytes.Equal(got.GetPayload(), []byte{'a', byte('0' + i)}) && bytes.Equal(got.GetSig(), e.GetSig()) && sameCids(got.GetNext(), e.GetNext()),
				"an entry the log held is returned with identical content after a merge that offered other content under its identifier")
		}
	}
	now := payloadSeq(A.Values().Slice())
	vx.Assert("C05", containsSeq(now, prev), "the new view contains the previous view")
	vx.Assert("C05", A.Len() >= n, "the entry count never decreases")
	vx.Cover("rehashed-head-offered")
}

// containsSeq: prev's elements (separated as payloadSeq separates them) occur in now in the same order.
func containsSeq(now, prev string) bool {
	j := 0
	for i := 0; i < len(now) && j < len(prev); i++ {
		if now[i] == prev[j] {
			j++
		}
	}
	return j == len(prev)
}

var _ = register("H_C05_rehash", H_C05_rehash)
