//go:build verif

package zz_verif

import (
	"fmt"
	"os"
	"path/filepath"
	"runtime"
	"strings"
	"testing"
	"time"

	"berty.tech/go-ipfs-log/internal/vx"
)

// TestReplay runs one harness natively with the inputs of a model written by the engine.
// Output protocol (stdout): VX-ASSERT-FAILED <sig> | VX-PANIC <kind> @ <file:line> | VX-DEADLOCK | VX-OBS k=v | VX-DONE
func TestReplay(t *testing.T) {
	path := os.Getenv("VX_MODEL")
	if path == "" {
		t.Skip("no VX_MODEL")
	}
	// VX_STRESS=n: repeat the (concurrent) harness up to n times with real goroutines until it fails;
	// used to confirm schedule-dependent counterexamples that cannot be steered through gates.
	iters := 1
	if s := os.Getenv("VX_STRESS"); s != "" {
		fmt.Sscan(s, &iters)
	}
	wd := 20 * time.Second
	if iters > 1 {
		wd = 2 * time.Second
	}
	if os.Getenv("VX_STEER") == "1" {
		wd = 8 * time.Second
	}
	for it := 0; it < iters; it++ {
		if err := vx.Load(path); err != nil {
			t.Fatal(err)
		}
		fn, ok := Harnesses[vx.FnName()]
		if !ok {
			t.Fatalf("unknown harness %q", vx.FnName())
		}
		done := make(chan struct{})
		go func() {
			defer close(done)
			defer func() {
				if r := recover(); r != nil {
					if vx.IsAssumeFalse(r) {
						return
					}
					fmt.Printf("VX-PANIC %s @ %s%s\n", panicKind(fmt.Sprint(r)), panicSite(), vx.TagSuffix())
					fmt.Printf("VX-PANIC-DETAIL %v\n", r)
				}
			}()
			if os.Getenv("VX_STEER") == "1" {
				vx.SteerStart() // this goroutine is "0" of the recorded schedule
			}
			fn()
			fmt.Println("VX-DONE")
		}()
		select {
		case <-done:
		case <-time.After(wd):
			fmt.Println("VX-DEADLOCK")
			buf := make([]byte, 1<<16)
			n := runtime.Stack(buf, true)
			fmt.Printf("VX-DEADLOCK-DETAIL iteration %d\n%s\n", it, buf[:n])
			return
		}
		if vx.Failed() {
			return
		}
	}
}

func panicKind(msg string) string {
	l := strings.ToLower(msg)
	for _, k := range []string{"slice bounds out of range", "index out of range", "nil pointer dereference", "nil map", "interface conversion", "divide by zero", "closed channel", "negative", "unlock of unlocked", "makeslice"} {
		if strings.Contains(l, k) {
			return k
		}
	}
	return "explicit panic"
}

// panicSite: innermost frame (below the runtime) that belongs to the module under test, not to the harness.
func panicSite() string {
	pcs := make([]uintptr, 64)
	n := runtime.Callers(3, pcs)
	frames := runtime.CallersFrames(pcs[:n])
	fallback := ""
	for {
		f, more := frames.Next()
		if strings.HasPrefix(f.Function, "berty.tech/go-ipfs-log") && !strings.Contains(f.Function, "/zz_verif.") && !strings.Contains(f.Function, "/internal/vx.") {
			return fmt.Sprintf("%s:%d", rel(f.File), f.Line)
		}
		if fallback == "" && !strings.HasPrefix(f.Function, "runtime.") {
			fallback = fmt.Sprintf("%s:%d", rel(f.File), f.Line)
		}
		if !more {
			break
		}
	}
	return fallback
}

func rel(f string) string {
	root := os.Getenv("VX_REPO")
	if root == "" {
		root = "/repo"
	}
	if r, err := filepath.Rel(root, f); err == nil && !strings.HasPrefix(r, "..") {
		return r
	}
	return f
}
