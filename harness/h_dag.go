//go:build verif

package zz_verif

import (
	ipfslog "berty.tech/go-ipfs-log"
	"berty.tech/go-ipfs-log/entry"
	"berty.tech/go-ipfs-log/iface"
	"berty.tech/go-ipfs-log/internal/vx"
	"github.com/ipfs/go-cid"
)

// buildDAG: N entries over a symbolic causal structure. For i > j a decision variable says whether j is a
// predecessor of i; predecessor lists are antichains (what Append produces: the heads of a log state);
// clock times are SMT variables constrained only by time(i) > time(j) for predecessors j (and 1 <= time);
// writers are chosen among W identities. Every entry is made by the real exported CreateEntryWithIO, so the
// states built from them are exactly what the loaders construct with NewLog(Entries).
func buildDAG(h *hist, n int) []iface.IPFSLogEntry {
	var es []iface.IPFSLogEntry
	anc := make([]map[int]bool, n) // ancestors (transitive)
	for i := 0; i < n; i++ {
		anc[i] = map[int]bool{}
		var next []cid.Cid
		var preds []int
		for j := i - 1; j >= 0; j-- {
			related := false
			for _, p := range preds {
				if anc[p][j] {
					related = true // j is already in the past of a chosen predecessor: not an antichain
				}
			}
			if related {
				continue
			}
			if vx.Choice("edge", 2) == 1 {
				preds = append(preds, j)
				next = append(next, es[j].GetHash())
				anc[i][j] = true
				for a := range anc[j] {
					anc[i][a] = true
				}
			}
		}
		t := vx.IntRange("time", 1, 1<<40)
		for _, p := range preds {
			vx.Assume(t > es[p].GetClock().GetTime())
		}
		w := h.ids[vx.Choice("writer", h.cfg.W)]
		e, err := entry.CreateEntryWithIO(ctx, h.api, w, &entry.Entry{LogID: "X", Payload: []byte{'d', byte('0' + i)}, Next: next,
			Clock: entry.NewLamportClock(w.PublicKey, t)}, nil, h.io())
		if err != nil {
			panic(err)
		}
		es = append(es, e)
	}
	return es
}

func distinctIDTime(es []iface.IPFSLogEntry) bool {
	ok := true
	for i := range es {
		for j := i + 1; j < len(es); j++ {
			same := string(es[i].GetClock().GetID()) == string(es[j].GetClock().GetID())
			if same {
				ok = vx.And(ok, es[i].GetClock().GetTime() != es[j].GetClock().GetTime())
			}
		}
	}
	return ok
}

// H_DAG: structural properties (C02, C03) of logs built over every DAG shape of N entries, and of the
// merge of two predecessor-closed sub-logs (inductive-step form of C01/C02: any closed pre-state, one merge).
func H_DAG() {
	cfg := histParams()
	cfg.K = 0
	h := newHist(cfg)
	propOverride = []string{"", "C01", "C02", "C03"}[vx.Param("AS", 3)] // the property whose check runs this harness
	n := vx.Param("N", 4)
	es := buildDAG(h, n)
	cmp := h.sortFn()
	if cfg.sort != sortHash {
		vx.Assume(distinctIDTime(es)) // the ordering must be a strict total order on the entries present
	}
	// whole DAG, inserted in index order and in reverse order
	L := newLogOpt(h.api, h.ids[0], &ipfslog.LogOptions{SortFn: cmp, Entries: orderedMapOf(es)})
	checkHeads(L, "log over a DAG")
	v := L.Values().Slice()
	vx.Assert(pp("C03"), len(v) == n && len(hashSet(v)) == n, "Values() contains each entry of the log exactly once (DAG)")
	pos := map[string]int{}
	for i, e := range v {
		pos[hstr(e)] = i
	}
	causal := true
	for i, e := range v {
		for _, nx := range e.GetNext() {
			if p, in := pos[nx.String()]; in && p >= i {
				causal = false
			}
		}
	}
	vx.Assert(pp("C03"), causal, "every entry comes after all of its predecessors (DAG)")
	for i := 0; i+1 < len(v); i++ {
		r, err := cmp(v[i], v[i+1])
		vx.Assert(pp("C03"), err == nil && r < 0, "Values() is sorted by the configured ordering (DAG)")
	}
	rev := make([]iface.IPFSLogEntry, n)
	for i, e := range es {
		rev[n-1-i] = e
	}
	L2 := newLogOpt(h.api, h.ids[0], &ipfslog.LogOptions{SortFn: cmp, Entries: orderedMapOf(rev)})
	vx.Assert(pp("C03"), sameSeq(L2.Values().Slice(), v), "Values() depends only on the set of entries, not on their arrival order (DAG)")
	if L.Heads().Len() > 1 {
		vx.Cover("forked-dag")
	}
	// two predecessor-closed sub-logs and their merge
	if vx.Param("MERGE", 1) == 1 {
		inA, inB := make([]bool, n), make([]bool, n)
		var a, b []iface.IPFSLogEntry
		for i := 0; i < n; i++ {
			okA, okB := true, true
			for j := 0; j < i; j++ {
				for _, nx := range es[i].GetNext() {
					if nx.Equals(es[j].GetHash()) {
						okA = okA && inA[j]
						okB = okB && inB[j]
					}
				}
			}
			if okA && vx.Choice("inA", 2) == 1 {
				inA[i] = true
				a = append(a, es[i])
			}
			if okB && vx.Choice("inB", 2) == 1 {
				inB[i] = true
				b = append(b, es[i])
			}
		}
		A := newLogOpt(h.api, h.ids[0], &ipfslog.LogOptions{SortFn: cmp, Entries: orderedMapOf(a)})
		B := newLogOpt(h.api, h.ids[1%h.cfg.W], &ipfslog.LogOptions{SortFn: cmp, Entries: orderedMapOf(b)})
		_, err := A.Join(B, -1)
		vx.Assert(pp("C02"), err == nil, "merging a valid sub-log succeeds (DAG)")
		checkHeads(A, "merge of two closed sub-logs of a DAG")
		want := union(hashSet(a), hashSet(b))
		vx.Assert(pp("C01"), sameSet(hashSet(entriesOf(A)), want), "the merge holds the union of both sub-logs (DAG)")
		av := A.Values().Slice()
		vx.Assert(pp("C03"), len(av) == len(want) && len(hashSet(av)) == len(av), "Values() of the merge contains each entry exactly once (DAG)")
		for i := 0; i+1 < len(av); i++ {
			r, err := cmp(av[i], av[i+1])
			vx.Assert(pp("C03"), err == nil && r < 0, "Values() of the merge is sorted (DAG)")
		}
		vx.Cover("merged-sublogs")
	}
	vx.Cover("dag-done")
}

var _ = register("H_DAG", H_DAG)
