//go:build verif

package zz_verif

import (
	"math"

	"berty.tech/go-ipfs-log/entry"
	"berty.tech/go-ipfs-log/iface"
	"berty.tech/go-ipfs-log/internal/vx"
	"berty.tech/go-ipfs-log/io/cbor"
	"berty.tech/go-ipfs-log/io/jsonable"
	"github.com/ipfs/go-cid"
	cbornode "github.com/ipfs/go-ipld-cbor"
)

// H_C11_undecodable: a readable block that has the shape of an entry but a field the real CBOR codec's
// conversion rejects (key / signature / clock id that is not hex), named by a link of a stored entry: the load
// drops it like a missing block and returns everything else that is reachable; no fetch worker panics (seed C11-k).
func H_C11_undecodable() {
	prop := []string{"C11", "C12"}[vx.Param("AS", 0)] // dropped like a missing block (C11); never a crash (C12)
	ids, _ := realIdentities("userA")
	api := newMemAPI()
	io, err := cbor.IO(&entry.Entry{}, &entry.LamportClock{})
	if err != nil {
		panic(err)
	}
	e1, err := entry.CreateEntryWithIO(ctx, api, ids[0], &entry.Entry{LogID: "X", Payload: []byte("a"), Clock: entry.NewLamportClock(ids[0].PublicKey, 1)}, nil, io)
	if err != nil {
		panic(err)
	}
	j := &jsonable.Entry{V: 2, LogID: "X", Key: "0a", Sig: "0b", Next: []cid.Cid{}, Refs: []cid.Cid{}, Payload: "evil",
		Clock: &jsonable.LamportClock{ID: "0c", Time: 1}}
	switch vx.Choice("broken", 3) {
	case 0:
		j.Key = "zz"
		vx.Sig("broken=key")
	case 1:
		j.Sig = "0"
		vx.Sig("broken=sig")
	case 2:
		j.Clock.ID = "xy"
		vx.Sig("broken=clock-id")
	}
	nd, err := cbornode.WrapObject(j, math.MaxUint64, -1)
	if err != nil {
		panic(err)
	}
	if err := api.Dag().Add(ctx, nd); err != nil {
		panic(err)
	}
	links := []cid.Cid{e1.GetHash(), nd.Cid()}
	var next, refs []cid.Cid
	if vx.Choice("via", 2) == 0 {
		next = links
	} else {
		next, refs = links[:1], links[1:]
	}
	head, err := entry.CreateEntryWithIO(ctx, api, ids[0], &entry.Entry{LogID: "X", Payload: []byte("h"), Next: next, Refs: refs,
		Clock: entry.NewLamportClock(ids[0].PublicKey, 2)}, nil, io)
	if err != nil {
		panic(err)
	}
	got := entry.FetchAll(ctx, api, []cid.Cid{head.GetHash()}, &iface.FetchOptions{Concurrency: 1 + vx.Choice("conc", 2), IO: io, Provider: ids[0].Provider})
	vx.Cover("undecodable-block-linked")
	vx.Assert(prop, sameSet(hashSet(got), map[string]bool{hstr(head): true, hstr(e1): true}), "an undecodable block is dropped and everything else reachable is loaded")
	for _, e := range got {
		vx.Assert(prop, e != nil && e.GetClock() != nil, "every loaded entry is complete")
	}
}

var _ = register("H_C11_undecodable", H_C11_undecodable)
