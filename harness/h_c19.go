//go:build verif

package zz_verif

import (
	"berty.tech/go-ipfs-log/entry"
	"berty.tech/go-ipfs-log/entry/sorting"
	"berty.tech/go-ipfs-log/iface"
	"berty.tech/go-ipfs-log/internal/vx"
	"github.com/ipfs/go-cid"
	mh "github.com/multiformats/go-multihash"
)

// symEntry: an entry whose clock time ranges over all 2^64 values, whose clock id is a byte
// string of symbolic content and length 0..IDLEN, and whose hash is the atom CID #i (symbolic rank).
func symEntry(name string, i int) iface.IPFSLogEntry {
	return &entry.Entry{
		LogID:   "X",
		Payload: []byte("p"),
		Hash:    vx.Cid(i),
		Clock:   entry.NewLamportClock(vx.Bytes(name+".id", vx.Param("IDLEN", 1)), vx.Int(name+".time")),
	}
}

func sameID(a, b iface.IPFSLogEntry) bool {
	x, y := a.GetClock().GetID(), b.GetClock().GetID()
	if len(x) != len(y) {
		return false
	}
	eq := true
	for i := range x {
		eq = vx.And(eq, x[i] == y[i])
	}
	return eq
}

func timeOf(e iface.IPFSLogEntry) int { return e.GetClock().GetTime() }

// H_C19_hashorder: SortByEntryHash is a strict total order on distinct entries that respects clock time.
func H_C19_hashorder() {
	a, b, c := symEntry("a", 0), symEntry("b", 1), symEntry("c", 2)
	ab, e1 := sorting.SortByEntryHash(a, b)
	ba, e2 := sorting.SortByEntryHash(b, a)
	bc, e3 := sorting.SortByEntryHash(b, c)
	ac, e4 := sorting.SortByEntryHash(a, c)
	aa, _ := sorting.SortByEntryHash(a, a)
	vx.Cover("compared")
	vx.Assert("C19", e1 == nil && e2 == nil && e3 == nil && e4 == nil, "SortByEntryHash returns no error")
	vx.Assert("C19", aa == 0, "irreflexive: an entry is not ordered before itself (SortByEntryHash)")
	vx.Assert("C19", vx.Sgn(ab) == -vx.Sgn(ba), "antisymmetry SortByEntryHash")
	vx.Assert("C19", ab != 0, "totality on distinct entries SortByEntryHash")
	vx.Assert("C19", vx.Implies(vx.And(ab < 0, bc < 0), ac < 0), "transitivity SortByEntryHash")
	vx.Assert("C19", vx.Implies(timeOf(a) < timeOf(b), ab < 0), "SortByEntryHash orders smaller clock time first")
}

// H_C19_lww: LastWriteWins is a strict total order whenever (clock id, time) pairs are distinct;
// FirstWriteWins is its exact reverse; both respect clock time.
func H_C19_lww() {
	a, b, c := symEntry("a", 0), symEntry("b", 1), symEntry("c", 2)
	dAB := vx.Not(vx.And(sameID(a, b), timeOf(a) == timeOf(b)))
	dBC := vx.Not(vx.And(sameID(b, c), timeOf(b) == timeOf(c)))
	dAC := vx.Not(vx.And(sameID(a, c), timeOf(a) == timeOf(c)))
	ab, _ := sorting.LastWriteWins(a, b)
	ba, _ := sorting.LastWriteWins(b, a)
	bc, _ := sorting.LastWriteWins(b, c)
	ac, _ := sorting.LastWriteWins(a, c)
	vx.Cover("compared")
	vx.Assert("C19", vx.Implies(dAB, vx.Sgn(ab) == -vx.Sgn(ba)), "antisymmetry LastWriteWins (distinct id/time)")
	vx.Assert("C19", vx.Implies(dAB, ab != 0), "totality LastWriteWins (distinct id/time)")
	vx.Assert("C19", vx.Implies(vx.And(vx.And(dAB, dBC), vx.And(dAC, vx.And(ab < 0, bc < 0))), ac < 0), "transitivity LastWriteWins (distinct id/time)")
	vx.Assert("C19", vx.Implies(timeOf(a) < timeOf(b), ab < 0), "LastWriteWins orders smaller clock time first")
	f, err := sorting.FirstWriteWins(a, b)
	vx.Assert("C19", err == nil, "FirstWriteWins returns no error")
	vx.Assert("C19", vx.Sgn(f) == -vx.Sgn(ab), "FirstWriteWins is the exact reverse of LastWriteWins")
	// the hash-tiebreak ordering, the default ordering and the clock comparison agree wherever the (id, time)
	// pairs differ: the hash only ever breaks a full clock tie (seed C19-k)
	hab, _ := sorting.SortByEntryHash(a, b)
	vx.Assert("C19", vx.Implies(dAB, vx.Sgn(hab) == vx.Sgn(ab)), "SortByEntryHash agrees with LastWriteWins when clock id/time pairs are distinct")
	vx.Assert("C19", vx.Implies(dAB, vx.Sgn(a.GetClock().Compare(b.GetClock())) == vx.Sgn(ab)), "LastWriteWins agrees with LamportClock.Compare when clock id/time pairs are distinct")
	nzh, nzherr := sorting.NoZeroes(sorting.SortByEntryHash)(a, b)
	vx.Assert("C19", nzherr == nil && vx.Sgn(nzh) == vx.Sgn(hab), "NoZeroes(SortByEntryHash) is SortByEntryHash on distinct entries")
	nz, nzerr := sorting.NoZeroes(sorting.LastWriteWins)(a, b)
	vx.Assert("C19", vx.Implies(dAB, vx.And(nzerr == nil, vx.Sgn(nz) == vx.Sgn(ab))), "NoZeroes passes a non-zero verdict through")
}

// H_C19_clock: LamportClock.Compare is antisymmetric, transitive and respects time.
func H_C19_clock() {
	n := vx.Param("IDLEN", 1)
	if vx.Choice("sharedBuffer", 2) == 1 {
		// ids that are slices of one buffer (a device id carved out of "writer/device"): equality of ids is
		// equality of their bytes, not of where they live
		base := vx.BytesN("base", 2)
		t := vx.Int("t")
		p, q := entry.NewLamportClock(base[:1], t), entry.NewLamportClock(base, t)
		pq, qp := p.Compare(q), q.Compare(p)
		vx.Assert("C19", pq < 0 && qp > 0, "a clock id that is a proper prefix of another (same time) compares lower, also when both are slices of one buffer")
		same := entry.NewLamportClock(base[:2], t)
		vx.Assert("C19", q.Compare(same) == 0, "clocks with the same id bytes and time compare equal")
		vx.Cover("prefix-ids-in-one-buffer")
		return
	}
	a := entry.NewLamportClock(vx.Bytes("a.id", n), vx.Int("a.time"))
	b := entry.NewLamportClock(vx.Bytes("b.id", n), vx.Int("b.time"))
	c := entry.NewLamportClock(vx.Bytes("c.id", n), vx.Int("c.time"))
	ab, ba, bc, ac := a.Compare(b), b.Compare(a), b.Compare(c), a.Compare(c)
	vx.Cover("compared")
	vx.Assert("C19", vx.Sgn(ab) == -vx.Sgn(ba), "antisymmetry LamportClock.Compare")
	vx.Assert("C19", vx.Implies(vx.And(ab < 0, bc < 0), ac < 0), "transitivity LamportClock.Compare")
	vx.Assert("C19", vx.Implies(a.GetTime() < b.GetTime(), ab < 0), "LamportClock.Compare orders smaller time first")
	x := &entry.Entry{Clock: a, Hash: vx.Cid(0)}
	y := &entry.Entry{Clock: b, Hash: vx.Cid(1)}
	cmp, err := sorting.Compare(x, y)
	vx.Assert("C19", err == nil && vx.Sgn(cmp) == vx.Sgn(ab), "sorting.Compare agrees with the clock comparison")
}

var perms3 = [][]int{{0, 1, 2}, {0, 2, 1}, {1, 0, 2}, {1, 2, 0}, {2, 0, 1}, {2, 1, 0}}

// H_C19_sort: Sort with a lawful order yields a sorted permutation of the input, the same for every input order.
func H_C19_sort() {
	es := []iface.IPFSLogEntry{symEntry("a", 0), symEntry("b", 1), symEntry("c", 2)}
	cmp := sorting.SortByEntryHash
	if vx.Param("LWW", 0) == 1 {
		cmp = sorting.LastWriteWins
		vx.Assume(vx.Not(vx.And(sameID(es[0], es[1]), timeOf(es[0]) == timeOf(es[1]))))
		vx.Assume(vx.Not(vx.And(sameID(es[1], es[2]), timeOf(es[1]) == timeOf(es[2]))))
		vx.Assume(vx.Not(vx.And(sameID(es[0], es[2]), timeOf(es[0]) == timeOf(es[2]))))
	}
	idx := perms3[vx.Choice("perm", 6)]
	in1 := []iface.IPFSLogEntry{es[0], es[1], es[2]}
	in2 := []iface.IPFSLogEntry{es[idx[0]], es[idx[1]], es[idx[2]]}
	rev := vx.Param("REVERSE", 0) == 1
	sorting.Sort(cmp, in1, rev)
	sorting.Sort(cmp, in2, rev)
	vx.Cover("sorted")
	for i := 0; i < 3; i++ {
		vx.Assert("C19", in1[i] == in2[i], "Sort is deterministic: same result for every input permutation")
	}
	seen := 0
	for i := 0; i < 3; i++ {
		for j := 0; j < 3; j++ {
			if in1[i] == es[j] {
				seen |= 1 << j
			}
		}
	}
	vx.Assert("C19", seen == 7, "Sort returns a permutation of its input")
	for i := 0; i+1 < 3; i++ {
		r, _ := cmp(in1[i], in1[i+1])
		if rev {
			vx.Assert("C19", r > 0, "Sort output is ordered (descending)")
		} else {
			vx.Assert("C19", r < 0, "Sort output is ordered (ascending)")
		}
	}
}

var _ = register("H_C19_hashorder", H_C19_hashorder)
var _ = register("H_C19_lww", H_C19_lww)
var _ = register("H_C19_clock", H_C19_clock)
var _ = register("H_C19_sort", H_C19_sort)

// H_C19_cidforms: the hash tie-break on real (non-atom) identifiers, including identifiers that share their
// multihash and differ only in version or codec (CIDv0 / CIDv1 dag-pb / CIDv1 dag-cbor of one digest - what a
// legacy block requested under both its names, or one digest under two codecs, produces): distinct entries
// with tied clocks are never "equal", the order is antisymmetric and sorting is input-order independent.
func H_C19_cidforms() {
	digest := make([]byte, 32)
	for i := range digest {
		digest[i] = byte(i*7 + 1)
	}
	mh1, err := mh.Encode(digest, mh.SHA2_256)
	if err != nil {
		panic(err)
	}
	digest[31] ^= 0x55
	mh2, _ := mh.Encode(digest, mh.SHA2_256)
	forms := []cid.Cid{cid.NewCidV0(mh1), cid.NewCidV1(cid.DagProtobuf, mh1), cid.NewCidV1(cid.DagCBOR, mh1), cid.NewCidV1(cid.DagCBOR, mh2)}
	id := vx.Bytes("id", vx.Param("IDLEN", 1))
	t := vx.Int("time")
	var es []iface.IPFSLogEntry
	for i, c := range forms {
		es = append(es, &entry.Entry{LogID: "X", Payload: []byte{'p', byte('0' + i)}, Hash: c, Clock: entry.NewLamportClock(id, t)})
	}
	strict := sorting.NoZeroes(sorting.SortByEntryHash)
	for i := range es {
		for j := range es {
			if i == j {
				continue
			}
			r, err := sorting.SortByEntryHash(es[i], es[j])
			q, _ := sorting.SortByEntryHash(es[j], es[i])
			vx.Assert("C19", err == nil && r != 0, "the hash tie-break never calls two distinct entries equal (identifiers sharing a multihash)")
			vx.Assert("C19", vx.Sgn(r) == -vx.Sgn(q), "the hash tie-break is antisymmetric (identifiers sharing a multihash)")
			_, err = strict(es[i], es[j])
			vx.Assert("C19", err == nil, "NoZeroes(SortByEntryHash) accepts every pair of distinct entries")
		}
	}
	p := perms4[vx.Choice("perm", len(perms4))]
	in1 := []iface.IPFSLogEntry{es[0], es[1], es[2], es[3]}
	in2 := []iface.IPFSLogEntry{es[p[0]], es[p[1]], es[p[2]], es[p[3]]}
	sorting.Sort(sorting.SortByEntryHash, in1, false)
	sorting.Sort(sorting.SortByEntryHash, in2, false)
	vx.Assert("C19", sameSeq(in1, in2), "Sort is deterministic: same result for every input permutation (identifiers sharing a multihash)")
	vx.Cover("cid-forms")
}

var perms4 = func() [][]int {
	var out [][]int
	var rec func(cur []int, used int)
	rec = func(cur []int, used int) {
		if len(cur) == 4 {
			out = append(out, append([]int{}, cur...))
			return
		}
		for i := 0; i < 4; i++ {
			if used&(1<<i) == 0 {
				rec(append(cur, i), used|1<<i)
			}
		}
	}
	rec(nil, 0)
	return out
}()

var _ = register("H_C19_cidforms", H_C19_cidforms)

// H_C19_sortdup: a list in which one entry occurs twice (the same value handed in twice - what a caller merging
// overlapping lists produces), sorted with the strict form of the hash ordering (its comparator reports the tie
// of the twins as an error): the result is still a permutation of the input, ordered, and the same sequence
// of entries for every input order.
func H_C19_sortdup() {
	es := []iface.IPFSLogEntry{symEntry("a", 0), symEntry("b", 1), symEntry("c", 2)}
	dup := vx.Choice("dup", 3)
	cmp := sorting.NoZeroes(sorting.SortByEntryHash)
	base := []iface.IPFSLogEntry{es[0], es[1], es[2], es[dup]}
	step := vx.Param("PSTEP", 1) // quick tier: every third of the 24 input orders
	idx := perms4[step*vx.Choice("perm", len(perms4)/step)+step-1]
	in1 := append([]iface.IPFSLogEntry{}, base...)
	in2 := []iface.IPFSLogEntry{base[idx[0]], base[idx[1]], base[idx[2]], base[idx[3]]}
	rev := vx.Param("REVERSE", 0) == 1
	sorting.Sort(cmp, in1, rev)
	sorting.Sort(cmp, in2, rev)
	vx.Cover("sorted-with-twins")
	count := [3]int{}
	for i := 0; i < 4; i++ {
		vx.Assert("C19", in1[i] == in2[i], "Sort is deterministic: same result for every input permutation (an entry listed twice)")
		for j := 0; j < 3; j++ {
			if in1[i] == es[j] {
				count[j]++
			}
		}
	}
	for j := 0; j < 3; j++ {
		want := 1
		if j == dup {
			want = 2
		}
		vx.Assert("C19", count[j] == want, "Sort returns a permutation of its input (an entry listed twice)")
	}
	for i := 0; i+1 < 4; i++ {
		r, _ := sorting.SortByEntryHash(in1[i], in1[i+1])
		if rev {
			vx.Assert("C19", r >= 0, "Sort output is ordered (descending, an entry listed twice)")
		} else {
			vx.Assert("C19", r <= 0, "Sort output is ordered (ascending, an entry listed twice)")
		}
	}
}

var _ = register("H_C19_sortdup", H_C19_sortdup)
