//go:build verif

package zz_verif

import (
	"berty.tech/go-ipfs-log/entry"
	"berty.tech/go-ipfs-log/entry/sorting"
	"berty.tech/go-ipfs-log/iface"
	"berty.tech/go-ipfs-log/internal/vx"
)

func sgn(x int) int {
	if x < 0 {
		return -1
	}
	if x > 0 {
		return 1
	}
	return 0
}

func symEntry(name string, i int) iface.IPFSLogEntry {
	return &entry.Entry{
		LogID:   "X",
		Payload: []byte("p"),
		Hash:    vx.Cid(i),
		Clock:   entry.NewLamportClock(vx.Bytes(name+".id", 2), vx.Int(name+".time")),
	}
}

// H_C19_hashorder: SortByEntryHash is a strict total order respecting clock time.
func H_C19_hashorder() {
	a, b, c := symEntry("a", 0), symEntry("b", 1), symEntry("c", 2)
	ab, _ := sorting.SortByEntryHash(a, b)
	ba, _ := sorting.SortByEntryHash(b, a)
	bc, _ := sorting.SortByEntryHash(b, c)
	ac, _ := sorting.SortByEntryHash(a, c)
	vx.Cover("compared")
	vx.Assert("C19", sgn(ab) == -sgn(ba), "antisymmetry SortByEntryHash")
	vx.Assert("C19", ab != 0, "totality on distinct entries")
	vx.Assert("C19", !(ab < 0 && bc < 0) || ac < 0, "transitivity SortByEntryHash")
	vx.Assert("C19", !(a.GetClock().GetTime() < b.GetClock().GetTime()) || ab < 0, "respects clock time")
}

// H_C19_clock: LamportClock.Compare antisymmetric and transitive.
func H_C19_clock() {
	a := entry.NewLamportClock(vx.Bytes("a.id", 2), vx.Int("a.time"))
	b := entry.NewLamportClock(vx.Bytes("b.id", 2), vx.Int("b.time"))
	c := entry.NewLamportClock(vx.Bytes("c.id", 2), vx.Int("c.time"))
	ab, ba, bc, ac := a.Compare(b), b.Compare(a), b.Compare(c), a.Compare(c)
	vx.Assert("C19", sgn(ab) == -sgn(ba), "antisymmetry LamportClock.Compare")
	vx.Assert("C19", !(ab < 0 && bc < 0) || ac < 0, "transitivity LamportClock.Compare")
	vx.Assert("C19", !(a.GetTime() < b.GetTime()) || ab < 0, "Compare respects time")
}

// H_C19_fww: FirstWriteWins is the reverse of LastWriteWins.
func H_C19_fww() {
	a, b := symEntry("a", 0), symEntry("b", 1)
	l, _ := sorting.LastWriteWins(a, b)
	f, _ := sorting.FirstWriteWins(a, b)
	vx.Assert("C19", sgn(f) == -sgn(l), "FirstWriteWins reverses LastWriteWins")
}

// H_C19_sort: Sort with the hash order yields a sorted permutation, independent of input order.
func H_C19_sort() {
	es := []iface.IPFSLogEntry{symEntry("a", 0), symEntry("b", 1), symEntry("c", 2)}
	perm := vx.Choice("perm", 6)
	idx := [][]int{{0, 1, 2}, {0, 2, 1}, {1, 0, 2}, {1, 2, 0}, {2, 0, 1}, {2, 1, 0}}[perm]
	in1 := []iface.IPFSLogEntry{es[0], es[1], es[2]}
	in2 := []iface.IPFSLogEntry{es[idx[0]], es[idx[1]], es[idx[2]]}
	sorting.Sort(sorting.SortByEntryHash, in1, false)
	sorting.Sort(sorting.SortByEntryHash, in2, false)
	for i := 0; i < 3; i++ {
		vx.Assert("C19", in1[i] == in2[i], "Sort independent of input order")
	}
	for i := 0; i+1 < 3; i++ {
		r, _ := sorting.SortByEntryHash(in1[i], in1[i+1])
		vx.Assert("C19", r < 0, "Sort output ascending")
	}
}

var _ = register("H_C19_hashorder", H_C19_hashorder)
var _ = register("H_C19_clock", H_C19_clock)
var _ = register("H_C19_fww", H_C19_fww)
var _ = register("H_C19_sort", H_C19_sort)
