//go:build verif

package zz_verif

import (
	"sync"

	ipfslog "berty.tech/go-ipfs-log"
	"berty.tech/go-ipfs-log/iface"
	"berty.tech/go-ipfs-log/internal/vx"
	"github.com/ipfs/go-cid"
	format "github.com/ipfs/go-ipld-format"
)

// H_C17: crash safety of the block store. Replicas share one store and write through the real default CBOR
// codec; steps are append / join / manifest publication; a symbolic block write (and optionally the next
// one) fails. At EVERY block write - i.e. at every crash point, since the store only grows - all links of
// the block being written must already be in the store; an operation whose write failed must return an
// error and leave no reference to an unwritten block; every identifier ever returned must load to exactly
// the log state at the moment it was produced.
func H_C17() {
	cfg := histParams()
	cfg.realIO = true
	h := newHist(cfg)
	dag := h.api.Dag().(*memDag)
	closed := true
	dag.onAdd = func(d *memDag, nd format.Node) {
		for _, l := range nd.Links() {
			if _, ok := d.nodes[l.Cid.String()]; !ok {
				closed = false
			}
		}
	}
	// fault: writes number failAt .. failAt+failLen-1 fail (failAt = 0: no fault)
	maxAdds := cfg.K + 2
	failAt := vx.Choice("failAt", maxAdds+1)
	if failAt > 0 {
		failLen := 1 + vx.Choice("failLen", vx.Param("MAXFAIL", 2))
		for i := 0; i < failLen; i++ {
			dag.failAdds[failAt+i] = true
		}
		vx.Sig("write-fault")
	}
	inStore := func(c cid.Cid) bool { _, ok := dag.nodes[c.String()]; return ok }
	check := func(what string) {
		vx.Assert("C17", closed, "every block written had all its predecessors, references and heads in the store already ("+what+")")
		for _, l := range h.logs {
			for _, e := range entriesOf(l) {
				vx.Assert("C17", inStore(e.GetHash()), "no log holds an entry whose block was never written ("+what+")")
			}
		}
	}
	publish := vx.Param("PUBLISH", 1) == 1
	h.run(nil, func(h *hist) {
		what := []string{"after append", "after join", "after reload", "after identity change", "after joining a partial log"}[h.kind]
		if h.kind == opAppend {
			if h.err == nil && h.res != nil {
				vx.Assert("C17", inStore(h.res.GetHash()), "an append that returned an entry has written its block")
				verifyLoad(h, h.logs[h.dst], ldEntryHash, h.res.GetHash())
				vx.Cover("append-loaded")
			} else {
				vx.Cover("append-failed")
			}
		}
		check(what)
		if publish && h.logs[h.dst].Len() > 0 && vx.Choice("publish", 2) == 1 {
			m, err := h.logs[h.dst].ToMultihash(ctx)
			if err == nil {
				vx.Assert("C17", inStore(m), "a publication that returned an identifier has written the manifest")
				verifyLoad(h, h.logs[h.dst], ldManifest, m)
				vx.Cover("manifest-loaded")
			} else {
				vx.Cover("publish-failed")
			}
			check("after publication")
		}
	})
}

// verifyLoad: the identifier loads (sequentially, no limit) to exactly the log's current state.
func verifyLoad(h *hist, L *ipfslog.IPFSLog, loader int, id cid.Cid) {
	saved := h.api.Dag().(*memDag).failAdds
	h.api.Dag().(*memDag).failAdds = map[int]bool{} // reading does not write; keep the fault schedule untouched by the loader's own codec use
	defer func() { h.api.Dag().(*memDag).failAdds = saved }()
	lo := &ipfslog.LogOptions{ID: "X", IO: h.io(), SortFn: h.sortFn()}
	var N *ipfslog.IPFSLog
	var err error
	if loader == ldManifest {
		N, err = ipfslog.NewFromMultihash(ctx, h.api, h.ids[0], id, lo, &ipfslog.FetchOptions{Concurrency: 1})
	} else {
		if L.Heads().Len() != 1 {
			return
		}
		N, err = ipfslog.NewFromEntryHash(ctx, h.api, h.ids[0], id, lo, &ipfslog.FetchOptions{Concurrency: 1})
	}
	vx.Assert("C17", err == nil && N != nil, "an identifier that was returned can be loaded")
	if err != nil || N == nil {
		return
	}
	vx.Assert("C17", sameSet(hashSet(entriesOf(N)), hashSet(entriesOf(L))) && sameSet(hashSet(N.Heads().Slice()), hashSet(L.Heads().Slice())),
		"an identifier that was returned loads to exactly the log state at the moment it was produced")
}

// H_C17_denied: the same writer's log exists twice over one store (a restart / second device at an earlier
// state); the second instance's controller denies appends. Whatever a denied append does to the store, no
// block that an earlier successful operation returned may disappear and the store must stay causally closed.
func H_C17_denied() {
	cfg := histParams()
	cfg.realIO = true
	cfg.R, cfg.W = 1, 1
	h := newHist(cfg)
	dag := h.api.Dag().(*memDag)
	n := 2 + vx.Choice("n", vx.Param("MAXN", 2))
	L := h.logs[0]
	var es []iface.IPFSLogEntry
	for i := 0; i < n; i++ {
		e, err := L.Append(ctx, []byte{'q', byte('0' + i)}, nil)
		vx.Assert("C17", err == nil, "append succeeds")
		if err != nil {
			return
		}
		es = append(es, e)
	}
	m, err := L.ToMultihash(ctx)
	vx.Assert("C17", err == nil, "publication succeeds")
	// the earlier state: all but the last k entries, same identity, same log id, denying controller
	k := 1 + vx.Choice("behind", n-1)
	old := newLogOpt(h.api, h.ids[0], &ipfslog.LogOptions{ID: "X", IO: h.io(), SortFn: h.sortFn(), Entries: orderedMapOf(es[:n-k]), AccessController: denyAll{}})
	payload := es[n-k].GetPayload()
	if vx.Choice("samePayload", 2) == 0 {
		payload = []byte("something else")
	} else {
		vx.Cover("duplicate-denied-append")
	}
	_, derr := old.Append(ctx, payload, nil)
	vx.Assert("C17", derr != nil, "the denied append reports an error")
	for _, e := range es {
		_, ok := dag.nodes[hstr(e)]
		vx.Assert("C17", ok, "a block that an earlier successful append returned is still in the store after a denied append")
	}
	ok := true
	for _, nd := range dag.nodes {
		for _, l := range nd.Links() {
			if _, in := dag.nodes[l.Cid.String()]; !in {
				ok = false
			}
		}
	}
	vx.Assert("C17", ok, "the store is causally closed after a denied append")
	verifyLoad(h, L, ldManifest, m)
	vx.Cover("denied-append-checked")
}

var _ iface.IPFSLogEntry
var _ = register("H_C17_denied", H_C17_denied)
var _ = register("H_C17", H_C17)

// H_C17_twins: two handles of one log (same identity, same state, one codec instance, one store) append the same
// payload at the same time: both writes are of one byte-identical block. The store's Add takes time and the
// first Add may fail. Every append that reports success has its block in the store when it returns.
func H_C17_twins() {
	cfg := histParams()
	cfg.realIO = true
	cfg.R, cfg.W, cfg.K = 1, 1, 0
	h := newHist(cfg)
	dag := h.api.Dag().(*memDag)
	io := h.io()
	A1 := newLogOpt(h.api, h.ids[0], &ipfslog.LogOptions{ID: "X", IO: io, SortFn: h.sortFn()})
	A2 := newLogOpt(h.api, h.ids[0], &ipfslog.LogOptions{ID: "X", IO: io, SortFn: h.sortFn()})
	dag.slow = true
	if f := vx.Choice("failAdd", 3); f > 0 {
		dag.failAdds[dag.adds+f] = true
		vx.Cover("write-fault")
	}
	var e1, e2 iface.IPFSLogEntry
	var err1, err2 error
	var wg sync.WaitGroup
	wg.Add(2)
	vx.ExploreOn()
	go func() {
		defer wg.Done()
		e1, err1 = A1.Append(ctx, []byte("same"), nil)
		if err1 == nil {
			dag.mu.Lock()
			_, ok := dag.nodes[hstr(e1)]
			dag.mu.Unlock()
			vx.Assert("C17", ok, "an append that returned an entry has written its block (concurrent identical writes)")
		}
	}()
	go func() {
		defer wg.Done()
		e2, err2 = A2.Append(ctx, []byte("same"), nil)
		if err2 == nil {
			dag.mu.Lock()
			_, ok := dag.nodes[hstr(e2)]
			dag.mu.Unlock()
			vx.Assert("C17", ok, "an append that returned an entry has written its block (concurrent identical writes)")
		}
	}()
	wg.Wait()
	vx.ExploreOff()
	if err1 == nil && err2 == nil {
		vx.Assert("C17", e1.GetHash().Equals(e2.GetHash()), "identical appends on identical handles give one identifier")
		vx.Cover("both-appended")
	}
	vx.Cover("twins-done")
}

var _ = register("H_C17_twins", H_C17_twins)

// H_C17_pin: writes with the Pin option over a pin service that may fail, including a second replica of the same
// identity and log repeating an append that is already stored (a byte-identical block). Whatever a failed pinned
// write does, no block a successful operation returned earlier disappears and the store stays causally closed.
func H_C17_pin() {
	cfg := histParams()
	cfg.realIO = true
	cfg.R, cfg.W, cfg.K = 1, 1, 0
	h := newHist(cfg)
	dag := h.api.Dag().(*memDag)
	pin := h.api.Pin().(*memPin)
	L := h.logs[0]
	n := 1 + vx.Choice("n", vx.Param("MAXN", 2))
	var es []iface.IPFSLogEntry
	for i := 0; i < n; i++ {
		e, err := L.Append(ctx, []byte{'q', byte('0' + i)}, &ipfslog.AppendOptions{Pin: vx.Choice("pinned", 2) == 1})
		vx.Assert("C17", err == nil, "append succeeds")
		if err != nil {
			return
		}
		es = append(es, e)
	}
	// the same log on a second device, k entries behind: it repeats the next append, pinned, and the pin may fail
	k := 1 + vx.Choice("behind", n)
	second := newLogOpt(h.api, h.ids[0], &ipfslog.LogOptions{ID: "X", IO: h.io(), SortFn: h.sortFn(), Entries: orderedMapOf(es[:n-k])})
	if vx.Choice("pinFails", 2) == 1 {
		pin.failAdds[pin.adds+1] = true
		vx.Cover("pin-fault")
	}
	_, rerr := second.Append(ctx, es[n-k].GetPayload(), &ipfslog.AppendOptions{Pin: true})
	if rerr != nil {
		vx.Cover("pinned-append-failed")
	}
	for _, e := range es {
		_, ok := dag.nodes[hstr(e)]
		vx.Assert("C17", ok, "a block that an earlier successful append returned is still in the store after a failed pinned write")
	}
	closed := true
	for _, nd := range dag.nodes {
		for _, l := range nd.Links() {
			if _, in := dag.nodes[l.Cid.String()]; !in {
				closed = false
			}
		}
	}
	vx.Assert("C17", closed, "the store is causally closed after a failed pinned write")
	vx.Cover("pin-checked")
}

var _ = register("H_C17_pin", H_C17_pin)
