//go:build verif

package zz_verif

import (
	idp "berty.tech/go-ipfs-log/identityprovider"
	"berty.tech/go-ipfs-log/internal/vx"
	"berty.tech/go-ipfs-log/keystore"
	"github.com/ipfs/go-datastore"
)

// realIdentities: the repository's own signing path - keystore over a map datastore, OrbitDB identity
// provider, secp256k1 keys (Dolev-Yao model under the engine, real crypto natively).
func realIdentities(names ...string) ([]*idp.Identity, *keystore.Keystore) {
	for attempt := 0; ; attempt++ {
		ks, err := keystore.NewKeystore(datastore.NewMapDatastore())
		if err != nil {
			panic(err)
		}
		var out []*idp.Identity
		var keys []string
		var vals [][]byte
		for i, n := range names {
			id, err := idp.CreateIdentity(ctx, &idp.CreateIdentityOptions{Keystore: ks, ID: n, Type: "orbitdb"})
			if err != nil {
				panic(err)
			}
			out = append(out, id)
			// the engine names the published (uncompressed) key of the i-th identity by the creation number of its key
			keys = append(keys, "pubuncomp("+itoa(2*(i+1))+",)")
			vals = append(vals, id.PublicKey)
		}
		// natively keys are random: re-draw until their byte order is the one the solver chose (tie-breaks on clock ids)
		if vx.OrderOK(keys, vals) || attempt > 500 {
			return out, ks
		}
	}
}

func itoa(n int) string {
	if n == 0 {
		return "0"
	}
	s := ""
	for n > 0 {
		s = string(rune('0'+n%10)) + s
		n /= 10
	}
	return s
}
