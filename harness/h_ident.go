//go:build verif

package zz_verif

import (
	idp "berty.tech/go-ipfs-log/identityprovider"
	"berty.tech/go-ipfs-log/keystore"
	"github.com/ipfs/go-datastore"
)

// realIdentities: the repository's own signing path - keystore over a map datastore, OrbitDB identity
// provider, secp256k1 keys (Dolev-Yao model under the engine, real crypto natively).
func realIdentities(names ...string) ([]*idp.Identity, *keystore.Keystore) {
	ks, err := keystore.NewKeystore(datastore.NewMapDatastore())
	if err != nil {
		panic(err)
	}
	var out []*idp.Identity
	for _, n := range names {
		id, err := idp.CreateIdentity(ctx, &idp.CreateIdentityOptions{Keystore: ks, ID: n, Type: "orbitdb"})
		if err != nil {
			panic(err)
		}
		out = append(out, id)
	}
	return out, ks
}
