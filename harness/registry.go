//go:build verif

package zz_verif

// Harnesses maps harness names to functions (used by the native replay test; the
// engine finds the functions by name in the SSA package).
var Harnesses = map[string]func(){}

func register(name string, f func()) bool { Harnesses[name] = f; return true }
