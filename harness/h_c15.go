//go:build verif

package zz_verif

import (
	ipfslog "berty.tech/go-ipfs-log"
	"berty.tech/go-ipfs-log/entry"
	"berty.tech/go-ipfs-log/iface"
	"berty.tech/go-ipfs-log/internal/vx"
	"github.com/ipfs/go-cid"
)

// drain reads everything buffered in ch without blocking and reports whether the channel was closed.
func drain(ch chan iface.IPFSLogEntry, max int) (out []iface.IPFSLogEntry, closed bool) {
	for i := 0; i < max+2; i++ {
		select {
		case e, ok := <-ch:
			if !ok {
				return out, true
			}
			out = append(out, e)
		default:
			return out, false
		}
	}
	return out, false
}

func reverseEntries(es []iface.IPFSLogEntry) []iface.IPFSLogEntry {
	out := make([]iface.IPFSLogEntry, len(es))
	for i, e := range es {
		out[len(es)-1-i] = e
	}
	return out
}

// H_C15: Iterator over a log produced by an arbitrary bounded history (forked logs included), with
// every combination of upper bound (default heads / one or two inclusive / one exclusive / unknown),
// lower bound (none / inclusive / exclusive, any entry of the selected range) and amount (none, or a
// symbolic integer in [0, size+2]).
func H_C15() {
	cfg := histParams()
	h := newHist(cfg)
	h.run(nil, nil)
	L := h.logs[0]
	cmp := h.sortFn()
	es := entriesOf(L)
	size := len(es)
	asc := L.Values().Slice()
	opts := &ipfslog.IteratorOptions{}

	// ---- upper bound ----
	var start []string // hashes the traversal starts from
	unknown := false
	antichain := true
	switch vx.Choice("upper", 6) {
	case 0: // default: heads
		for _, e := range L.Heads().Slice() {
			start = append(start, hstr(e))
		}
		vx.Sig("upper=heads")
	case 1: // one inclusive bound
		vx.Assume(size > 0)
		x := asc[vx.Choice("x", size)]
		opts.LTE = []cid.Cid{x.GetHash()}
		start = []string{hstr(x)}
		vx.Sig("upper=LTE1")
	case 2: // two inclusive bounds
		vx.Assume(size > 1)
		i := vx.Choice("x", size)
		j := vx.Choice("y", size)
		vx.Assume(i != j)
		opts.LTE = []cid.Cid{asc[i].GetHash(), asc[j].GetHash()}
		start = []string{hstr(asc[i]), hstr(asc[j])}
		pi := refPast([]string{hstr(asc[i])}, es)
		pj := refPast([]string{hstr(asc[j])}, es)
		antichain = !pi[hstr(asc[j])] && !pj[hstr(asc[i])]
		vx.Sig("upper=LTE2")
	case 3: // one exclusive bound
		vx.Assume(size > 0)
		x := asc[vx.Choice("x", size)]
		opts.LT = []cid.Cid{x.GetHash()}
		for _, n := range x.GetNext() {
			start = append(start, n.String())
		}
		vx.Sig("upper=LT1")
	case 4:
		opts.LTE = []cid.Cid{vx.Cid(77)}
		unknown = true
		vx.Sig("upper=LTE-unknown")
	case 5:
		opts.LT = []cid.Cid{vx.Cid(77)}
		unknown = true
		vx.Sig("upper=LT-unknown")
	}
	rng := refPast(start, es)
	var rangeEntries []iface.IPFSLogEntry
	for _, e := range es {
		if rng[hstr(e)] {
			rangeEntries = append(rangeEntries, e)
		}
	}
	desc := reverseEntries(refSorted(rangeEntries, cmp))
	causalOrder := h.cfg.sort != sortFWW
	if !causalOrder && !unknown {
		// an ordering that runs against causality (first write wins): "newest first" cannot mean "descending in
		// the configured ordering" (an entry never precedes its successors there). The reference is the iteration
		// without lower bound and amount from the same upper bound: it must cover the range with every entry before
		// its predecessors; lower bound and amount then cut that sequence.
		fopts := &ipfslog.IteratorOptions{LT: opts.LT, LTE: opts.LTE}
		fch := make(chan iface.IPFSLogEntry, size+4)
		ferr := L.Iterator(fopts, fch)
		vx.Assert("C15", ferr == nil, "iteration with valid bounds succeeds")
		if ferr != nil {
			return
		}
		full, fclosed := drain(fch, size+4)
		vx.Assert("C15", fclosed, "on success the output channel is closed")
		vx.Assert("C15", len(hashSet(full)) == len(full) && sameSet(hashSet(full), rng), "without lower bound and amount exactly the causal past of the upper bound is emitted")
		// Under such an ordering the traversal hands out, among the entries it has reached, the oldest first: on a
		// fork with a common root the root comes before the later branch. What "newest first" leaves for it is the
		// order of discovery: every entry is an upper bound or a predecessor (link or skip reference) of an entry
		// emitted before it - no entry comes before all of its successors in the range.
		startSet := map[string]bool{}
		for _, k := range start {
			startSet[k] = true
		}
		for i := range full {
			k := hstr(full[i])
			reached := startSet[k]
			for j := 0; j < i && !reached; j++ {
				for _, nx := range full[j].GetNext() {
					if nx.String() == k {
						reached = true
					}
				}
				for _, nx := range full[j].GetRefs() {
					if nx.String() == k {
						reached = true
					}
				}
			}
			vx.Assert("C15", reached, "every emitted entry is an upper bound or a predecessor of an entry emitted before it (newest first, ordering against causality)")
		}
		desc = full
		vx.Cover("anti-causal-ordering")
	}

	// ---- lower bound (inside the selected range) ----
	lower := vx.Choice("lower", 3)
	want := desc
	if lower != 0 && !unknown {
		vx.Assume(len(desc) > 0)
		zi := vx.Choice("z", len(desc))
		z := desc[zi]
		if lower == 1 {
			opts.GTE = z.GetHash()
			want = desc[:zi+1]
			vx.Sig("lower=GTE")
		} else {
			opts.GT = z.GetHash()
			want = desc[:zi]
			vx.Sig("lower=GT")
		}
	} else {
		vx.Sig("lower=none")
	}

	// ---- amount ----
	amount := -1
	if vx.Choice("hasAmount", 2) == 1 {
		amount = vx.IntRange("amount", 0, size+2)
		opts.Amount = &amount
		vx.Sig("amount=set")
	} else {
		vx.Sig("amount=none")
	}

	ch := make(chan iface.IPFSLogEntry, size+4)
	err := L.Iterator(opts, ch)
	if unknown {
		vx.Assert("C15", err != nil, "an unknown upper bound is reported as an error")
		vx.Cover("unknown-upper")
		return
	}
	vx.Assert("C15", err == nil, "iteration with valid bounds succeeds")
	if err != nil {
		return
	}
	got, closed := drain(ch, size+4)
	vx.Assert("C15", closed, "on success the output channel is closed")
	if amount >= 0 {
		vx.Assert("C15", len(got) <= amount, "at most `amount` entries are emitted")
		if amount > len(want) {
			vx.Cover("amount-exceeds-available")
		}
		if amount == 0 {
			vx.Cover("amount-zero")
		}
		k := amount
		if k > len(want) {
			k = len(want)
		}
		if lower != 0 {
			want = want[len(want)-k:] // nearest the lower bound
		} else {
			want = want[:k] // the newest
		}
	}
	vx.Assert("C15", len(hashSet(got)) == len(got), "no entry is emitted twice")
	for i := 0; causalOrder && i+1 < len(got); i++ {
		r, _ := cmp(got[i], got[i+1])
		vx.Assert("C15", r > 0, "entries are emitted newest first")
	}
	vx.Assert("C15", subset(hashSet(got), rng), "only entries of the causal past of the upper bound are emitted")
	if antichain || amount < 0 {
		vx.Assert("C15", sameSeq(got, want), "the emitted sequence is exactly the requested causal range")
	} else {
		// causally related inclusive bounds: the statement only promises "at most amount, the newest"
		ok := len(got) <= len(want)
		for i := range got {
			if i < len(want) && hstr(got[i]) != hstr(want[i]) {
				ok = false
			}
		}
		vx.Assert("C15", ok, "the emitted sequence is a prefix of the requested causal range")
		vx.Cover("related-multi-bounds")
	}
	vx.Cover("c15-done")
}

var _ = register("H_C15", H_C15)

// H_C15_siblings: two logs opened from one and the same (empty) entries value are independent: an upper bound
// that only the sibling knows is an unknown bound.
func H_C15_siblings() {
	h := newHist(histCfg{R: 1, K: 0, W: 2, sort: vx.Param("SORT", sortLWW), pcN: 1, emptyAt: -1, denyP: -1})
	shared := entry.NewOrderedMap()
	var src iface.IPFSLogOrderedEntries = shared
	if vx.Choice("via", 2) == 1 {
		src = freshObserver(h, 0).GetEntries() // the entries of a still empty log
	}
	S1 := newLogOpt(h.api, h.ids[0], &ipfslog.LogOptions{SortFn: h.sortFn(), Entries: src})
	S2 := newLogOpt(h.api, h.ids[1], &ipfslog.LogOptions{SortFn: h.sortFn(), Entries: src})
	n := 1 + vx.Choice("n", 2)
	var last iface.IPFSLogEntry
	for i := 0; i < n; i++ {
		e, err := S1.Append(ctx, []byte{'s', byte('0' + i)}, nil)
		if err != nil {
			panic(err)
		}
		last = e
	}
	vx.Assert("C15", S2.Len() == 0, "a log opened from the same entries value is not changed by appends to its sibling")
	opts := &ipfslog.IteratorOptions{}
	if vx.Choice("bound", 2) == 0 {
		opts.LTE = []cid.Cid{last.GetHash()}
		vx.Sig("upper=LTE-unknown")
	} else {
		opts.LT = []cid.Cid{last.GetHash()}
		vx.Sig("upper=LT-unknown")
	}
	ch := make(chan iface.IPFSLogEntry, 8)
	err := S2.Iterator(opts, ch)
	out, _ := drain(ch, 8)
	vx.Assert("C15", err != nil, "an unknown upper bound is reported as an error")
	vx.Assert("C15", len(out) == 0, "nothing is emitted for an unknown upper bound")
	vx.Cover("siblings-checked")
}

var _ = register("H_C15_siblings", H_C15_siblings)
