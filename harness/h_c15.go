//go:build verif

package zz_verif

import (
	ipfslog "berty.tech/go-ipfs-log"
	"berty.tech/go-ipfs-log/entry/sorting"
	"berty.tech/go-ipfs-log/iface"
	"berty.tech/go-ipfs-log/internal/vx"
)

// H_C15: iterator with a symbolic amount and an optional inclusive lower bound on a forked log.
func H_C15() {
	api := newMemAPI()
	idA, idB := mockIdentity("A", []byte{1}), mockIdentity("B", []byte{2})
	A := newLog(api, idA, sorting.SortByEntryHash)
	B := newLog(api, idB, sorting.SortByEntryHash)
	A.Append(ctx, []byte("a0"), nil)
	B.Append(ctx, []byte("b0"), nil)
	A.Join(B, -1)
	A.Append(ctx, []byte("a1"), nil)
	A.Append(ctx, []byte("a2"), nil)
	vals := A.Values().Slice() // ascending
	size := len(vals)
	amount := vx.IntRange("amount", 0, size+1)
	opts := &ipfslog.IteratorOptions{Amount: &amount}
	lower := vx.Choice("lower", size+1) // size = no lower bound
	if lower < size {
		opts.GTE = vals[lower].GetHash()
	}
	ch := make(chan iface.IPFSLogEntry, size+2)
	err := A.Iterator(opts, ch)
	vx.Assert("C15", err == nil, "iterator succeeds")
	// the channel must be closed on success: drain without blocking forever
	n := 0
	closed := false
	for i := 0; i < size+3; i++ {
		select {
		case _, ok := <-ch:
			if !ok {
				closed = true
			} else {
				n++
			}
		default:
		}
		if closed {
			break
		}
	}
	vx.Assert("C15", closed, "output channel closed on success")
	vx.Assert("C15", n <= amount, "at most amount entries")
	vx.Cover("c15-done")
}

var _ = register("H_C15", H_C15)
