//go:build verif

package zz_verif

import (
	"bytes"
	"context"
	"encoding/hex"
	"errors"

	"berty.tech/go-ipfs-log/entry"
	idp "berty.tech/go-ipfs-log/identityprovider"
	"berty.tech/go-ipfs-log/internal/vx"
	"berty.tech/go-ipfs-log/keystore"
	"github.com/btcsuite/btcd/btcec"
	"github.com/ipfs/go-datastore"
	"github.com/libp2p/go-libp2p/core/crypto"
)

// ids as applications choose them: plain names and path-like names that are not in canonical path form
var c20ids = []string{"alice", "org//bob", "/orbitdb/./carol"}

// H_C20_keys: a symbolic sequence of create / get / has operations on up to three ids across two keystore
// instances sharing one datastore (the second instance is what a restart or an evicted cache looks like:
// key present in the store, absent from the cache).
// failDS is a datastore whose Put can be made to fail (a full disk, a closed store): a CreateKey that fails
// has not created the key.
type failDS struct {
	datastore.Datastore
	fail     bool
	failGets int // the next n Get calls fail (a transient read error)
}

func (f *failDS) Get(c context.Context, k datastore.Key) ([]byte, error) {
	if f.failGets > 0 {
		f.failGets--
		return nil, errors.New("datastore: read failed")
	}
	return f.Datastore.Get(c, k)
}

func (f *failDS) Put(c context.Context, k datastore.Key, v []byte) error {
	if f.fail {
		return errors.New("put failed")
	}
	return f.Datastore.Put(c, k, v)
}

func H_C20_keys() {
	ds := &failDS{Datastore: datastore.NewMapDatastore()}
	failPut := vx.Param("FAILPUT", 0) == 1
	ks := make([]*keystore.Keystore, 2)
	for i := range ks {
		k, err := keystore.NewKeystore(ds)
		vx.Assert("C20", err == nil, "a keystore can be created")
		ks[i] = k
	}
	created := map[string]crypto.PrivKey{}
	K := vx.Param("K", 4)
	for s := 0; s < K; s++ {
		op := vx.Choice("kop", 3)
		id := c20ids[vx.Choice("id", vx.Param("NIDS", 2))]
		inst := vx.Choice("inst", 2)
		switch op {
		case 0: // create (only ids that do not exist yet: CreateKey replaces an existing key by design)
			if _, ok := created[id]; ok {
				vx.Assume(false)
			}
			if failPut && vx.Choice("putFails", 2) == 1 {
				ds.fail = true
				_, err := ks[inst].CreateKey(ctx, id)
				ds.fail = false
				vx.Assert("C20", err != nil, "CreateKey reports the failure of the datastore")
				vx.Cover("create-failed")
				break // the id stays "never created"
			}
			k, err := ks[inst].CreateKey(ctx, id)
			vx.Assert("C20", err == nil && k != nil, "CreateKey succeeds")
			created[id] = k
			vx.Cover("create")
		case 1:
			k, err := ks[inst].GetKey(ctx, id)
			if want, ok := created[id]; ok {
				vx.Assert("C20", err == nil && k != nil, "GetKey returns a key that was created, on every keystore over the same datastore")
				if err == nil && k != nil {
					vx.Assert("C20", k.Equals(want), "GetKey returns the identical key")
				}
				vx.Cover("get-existing")
			} else {
				vx.Assert("C20", err != nil, "GetKey reports an id that was never created as absent")
			}
		case 2:
			has, err := ks[inst].HasKey(ctx, id)
			if _, ok := created[id]; ok {
				vx.Assert("C20", err == nil && has, "HasKey reports a created key as present, on every keystore over the same datastore")
				vx.Cover("has-existing")
			} else {
				vx.Assert("C20", !has, "HasKey reports an id that was never created as absent")
			}
		}
	}
}

// H_C20_evict: more keys than the cache holds (128): the first ones are evicted and must still be found.
func H_C20_evict() {
	ds := datastore.NewMapDatastore()
	ks, _ := keystore.NewKeystore(ds)
	n := vx.Param("N", 130)
	var first crypto.PrivKey
	for i := 0; i < n; i++ {
		k, err := ks.CreateKey(ctx, "id"+string(rune('A'+i/26))+string(rune('a'+i%26)))
		vx.Assert("C20", err == nil, "CreateKey succeeds")
		if i == 0 {
			first = k
		}
	}
	has, err := ks.HasKey(ctx, "idAa")
	vx.Assert("C20", err == nil && has, "HasKey reports a created key as present, on every keystore over the same datastore")
	k, err := ks.GetKey(ctx, "idAa")
	vx.Assert("C20", err == nil && k != nil && k.Equals(first), "a key evicted from the cache is still returned identically")
	vx.Cover("evicted")
}

// H_C20_identity: identities are stable and self-consistent.
func H_C20_identity() {
	ds := datastore.NewMapDatastore()
	ks1, _ := keystore.NewKeystore(ds)
	ks2, _ := keystore.NewKeystore(ds) // restart / evicted cache
	name := c20ids[vx.Choice("id", 2)]
	second := ks1
	if vx.Choice("restart", 2) == 1 {
		second = ks2
	}
	a, err := idp.CreateIdentity(ctx, &idp.CreateIdentityOptions{Keystore: ks1, ID: name, Type: "orbitdb"})
	vx.Assert("C20", err == nil && a != nil, "CreateIdentity succeeds")
	b, err2 := idp.CreateIdentity(ctx, &idp.CreateIdentityOptions{Keystore: second, ID: name, Type: "orbitdb"})
	vx.Assert("C20", err2 == nil && b != nil, "CreateIdentity succeeds a second time")
	if err != nil || err2 != nil {
		return
	}
	vx.Assert("C20", a.ID == b.ID && bytes.Equal(a.PublicKey, b.PublicKey) && a.Type == b.Type, "creating an identity for the same id twice yields the same id, public key and type")
	vx.Assert("C20", bytes.Equal(a.Signatures.ID, b.Signatures.ID) && bytes.Equal(a.Signatures.PublicKey, b.Signatures.PublicKey), "creating an identity for the same id twice yields the same signatures")
	// the id signature verifies under the published public key
	pub, err := a.Provider.UnmarshalPublicKey(a.PublicKey)
	vx.Assert("C20", err == nil && pub != nil, "the published public key can be unmarshalled")
	if err == nil {
		ok, verr := pub.Verify([]byte(a.ID), a.Signatures.ID)
		vx.Assert("C20", verr == nil && ok, "the id signature verifies under the published public key")
	}
	// the public-key signature verifies under the key the id denotes
	idBytes, err := hex.DecodeString(a.ID)
	vx.Assert("C20", err == nil, "the identity id is the hex form of a public key")
	if err == nil {
		idKey, err := a.Provider.UnmarshalPublicKey(idBytes)
		vx.Assert("C20", err == nil && idKey != nil, "the identity id denotes a public key")
		if err == nil {
			signed := []byte(hex.EncodeToString(append(append([]byte{}, a.PublicKey...), a.Signatures.ID...)))
			ok, verr := idKey.Verify(signed, a.Signatures.PublicKey)
			vx.Assert("C20", verr == nil && ok, "the public-key signature verifies under the key the id denotes")
		}
	}
	// entries signed with the identity verify under the published key bytes
	api := newMemAPI()
	io := &atomIO{api: api}
	e, err := entry.CreateEntryWithIO(ctx, api, b, &entry.Entry{LogID: "X", Payload: []byte("p")}, nil, io)
	vx.Assert("C20", err == nil, "an entry can be signed with the identity")
	if err == nil {
		vx.Assert("C20", bytes.Equal(e.GetKey(), a.PublicKey), "the entry carries the published key bytes")
		vx.Assert("C20", e.Verify(a.Provider, io) == nil, "entries signed with the identity verify under the published key bytes")
	}
	// a different id gives a different identity
	o, err := idp.CreateIdentity(ctx, &idp.CreateIdentityOptions{Keystore: ks1, ID: "someone-else", Type: "orbitdb"})
	vx.Assert("C20", err == nil && o.ID != a.ID && !bytes.Equal(o.PublicKey, a.PublicKey), "different ids yield different identities")
	if err == nil {
		// the other identity restored with the first one's provider object (what decoding a stored identity with a
		// reader's provider yields; both keys live in the same keystore): it signs with its own key
		o2 := *o
		o2.Provider = b.Provider
		e2, err := entry.CreateEntryWithIO(ctx, api, &o2, &entry.Entry{LogID: "X", Payload: []byte("q")}, nil, io)
		vx.Assert("C20", err == nil, "an entry can be signed with the identity")
		if err == nil {
			vx.Assert("C20", bytes.Equal(e2.GetKey(), o.PublicKey), "the entry carries the published key bytes")
			vx.Assert("C20", e2.Verify(a.Provider, io) == nil, "entries signed with the identity verify under the published key bytes (identity bound to another identity's provider)")
		}
		vx.Cover("second-identity-same-provider")
	}
	vx.Cover("identity-checked")
}

var _ = register("H_C20_keys", H_C20_keys)
var _ = register("H_C20_evict", H_C20_evict)
var _ = register("H_C20_identity", H_C20_identity)

// H_C20_readfault: an identity created earlier signs through a keystore with a cold cache (restart) while the
// datastore fails one read: signing either reports the failure or signs with the identity's key - the stored key
// is never replaced and entries that Append/CreateEntry returned verify under the published key.
func H_C20_readfault() {
	ds := &failDS{Datastore: datastore.NewMapDatastore()}
	ks1, _ := keystore.NewKeystore(ds)
	name := c20ids[vx.Choice("id", 2)]
	a, err := idp.CreateIdentity(ctx, &idp.CreateIdentityOptions{Keystore: ks1, ID: name, Type: "orbitdb"})
	vx.Assert("C20", err == nil && a != nil, "CreateIdentity succeeds")
	if err != nil {
		return
	}
	keyBefore, err := ks1.GetKey(ctx, a.ID)
	vx.Assert("C20", err == nil && keyBefore != nil, "the signing key of the identity is in the keystore")
	if err != nil {
		return
	}
	// restart: a new keystore over the same datastore; the identity is created again (same id), then signs while
	// one read of the datastore fails
	ks2, _ := keystore.NewKeystore(ds)
	b, err := idp.CreateIdentity(ctx, &idp.CreateIdentityOptions{Keystore: ks2, ID: name, Type: "orbitdb"})
	vx.Assert("C20", err == nil && b != nil && bytes.Equal(a.PublicKey, b.PublicKey), "creating the identity again after a restart yields the same identity")
	if err != nil {
		return
	}
	ks3, _ := keystore.NewKeystore(ds) // a third instance: nothing cached
	b.Provider = idp.NewOrbitDBIdentityProvider(&idp.CreateIdentityOptions{Keystore: ks3, ID: name, Type: "orbitdb"})
	ds.failGets = vx.Choice("failGets", 2)
	api := newMemAPI()
	io := &atomIO{api: api}
	e, serr := entry.CreateEntryWithIO(ctx, api, b, &entry.Entry{LogID: "X", Payload: []byte("p")}, nil, io)
	ds.failGets = 0
	if serr == nil {
		vx.Assert("C20", e.Verify(a.Provider, io) == nil, "an entry that was signed and returned verifies under the identity's published key")
		vx.Cover("signed-after-restart")
	} else {
		vx.Cover("sign-reported-failure")
	}
	ks4, _ := keystore.NewKeystore(ds)
	keyAfter, err := ks4.GetKey(ctx, a.ID)
	vx.Assert("C20", err == nil && keyAfter != nil && keyAfter.Equals(keyBefore), "the stored signing key is the one that was created, whatever failed in between")
	vx.Cover("readfault-checked")
}

var _ = register("H_C20_readfault", H_C20_readfault)

// H_C20_fresh: an identity over freshly generated keys (not the fixture keys): the signing key's public point may
// have a Y coordinate whose leading byte is zero (one key in 256) - the published key bytes are a key all the
// same, the identity's signatures verify under it and so do entries signed with the identity. Natively keys are
// drawn until one of the shape the model names turns up.
func H_C20_fresh() {
	short := vx.Bool("yLeadingZero")
	var id *idp.Identity
	var priv crypto.PrivKey
	for try := 0; ; try++ {
		ks, err := keystore.NewKeystore(datastore.NewMapDatastore())
		vx.Assert("C20", err == nil, "a keystore can be opened")
		id, err = idp.CreateIdentity(ctx, &idp.CreateIdentityOptions{Keystore: ks, ID: "fresh", Type: "orbitdb"})
		vx.Assert("C20", err == nil && id != nil, "CreateIdentity succeeds")
		if err != nil {
			return
		}
		priv, err = ks.GetKey(ctx, id.ID)
		vx.Assert("C20", err == nil && priv != nil, "the identity's signing key is in the keystore")
		if err != nil {
			return
		}
		if !vx.Native() || yLeadingZero(priv) == short || try > 20000 {
			break
		}
	}
	vx.AssumeKeyY(priv, short)
	if short {
		vx.Cover("y-with-leading-zero-byte")
	}
	pub, err := id.Provider.UnmarshalPublicKey(id.PublicKey)
	vx.Assert("C20", err == nil && pub != nil, "the published public key bytes are a key")
	if err != nil {
		return
	}
	vx.Assert("C20", pub.Equals(priv.GetPublic()), "the published key is the public key of the identity's signing key")
	ok, verr := pub.Verify([]byte(id.ID), id.Signatures.ID)
	vx.Assert("C20", verr == nil && ok, "the id signature verifies under the published key")
	api := newMemAPI()
	io := &atomIO{api: api}
	e, err := entry.CreateEntryWithIO(ctx, api, id, &entry.Entry{LogID: "X", Payload: []byte("p")}, nil, io)
	vx.Assert("C20", err == nil, "an entry can be signed with the identity")
	if err == nil {
		vx.Assert("C20", e.Verify(id.Provider, io) == nil, "entries signed with the identity verify under the published key bytes")
	}
	vx.Cover("fresh-identity-checked")
}

// yLeadingZero (native runs only): does the Y coordinate of the key's public point start with a zero byte?
func yLeadingZero(priv crypto.PrivKey) bool {
	raw, err := priv.GetPublic().Raw()
	if err != nil {
		panic(err)
	}
	pk, err := btcec.ParsePubKey(raw, btcec.S256())
	if err != nil {
		panic(err)
	}
	return len(pk.Y.Bytes()) < 32
}

var _ = register("H_C20_fresh", H_C20_fresh)
