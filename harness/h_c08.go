//go:build verif

package zz_verif

import (
	"bytes"
	"encoding/json"

	ipfslog "berty.tech/go-ipfs-log"
	"berty.tech/go-ipfs-log/enc"
	"berty.tech/go-ipfs-log/entry"
	idp "berty.tech/go-ipfs-log/identityprovider"
	"berty.tech/go-ipfs-log/iface"
	"berty.tech/go-ipfs-log/internal/vx"
	"berty.tech/go-ipfs-log/io/cbor"
	pbio "berty.tech/go-ipfs-log/io/pb"
	"github.com/ipfs/go-cid"
	mh "github.com/multiformats/go-multihash"
)

// H_smoke_cbor: write an entry with the real default codec and read it back (engine bring-up).
func H_smoke_cbor() {
	ids, _ := realIdentities("userA")
	api := newMemAPI()
	io, err := cbor.IO(&entry.Entry{}, &entry.LamportClock{})
	vx.Assert("SMOKE", err == nil, "codec")
	e, err := entry.CreateEntryWithIO(ctx, api, ids[0], &entry.Entry{Payload: []byte("hi"), LogID: "X", Next: cids(10, 1), Refs: cids(20, 1)}, nil, io)
	vx.Assert("SMOKE", err == nil && e != nil, "create ok")
	if err != nil {
		return
	}
	d, err := entry.FromMultihashWithIO(ctx, api, e.GetHash(), ids[0].Provider, io)
	vx.Assert("SMOKE", err == nil && d != nil, "read back ok")
	if err != nil {
		return
	}
	vx.Assert("SMOKE", string(d.GetPayload()) == "hi" && d.GetLogID() == "X" && len(d.GetNext()) == 1 && d.GetNext()[0].Equals(vx.Cid(10)), "fields equal")
	vx.Assert("SMOKE", d.Verify(ids[0].Provider, io) == nil, "decoded entry verifies")
	h2, err := entry.ToMultihashWithIO(ctx, d, api, nil, io)
	vx.Assert("SMOKE", err == nil && h2.Equals(e.GetHash()), "re-encoding gives the same identifier")
	vx.Cover("smoke-cbor")
}

func sameCids(a, b []cid.Cid) bool {
	if len(a) != len(b) {
		return false
	}
	for i := range a {
		if !a[i].Equals(b[i]) {
			return false
		}
	}
	return true
}

func symIdentity(name string) *idp.Identity {
	return &idp.Identity{ID: string(vx.BytesN(name+".id", 1)), PublicKey: vx.BytesN(name+".pk", 1), Type: []string{"orbitdb", "other"}[vx.Choice(name+".type", 2)],
		Signatures: &idp.IdentitySignature{ID: vx.BytesN(name+".sig.id", 1), PublicKey: vx.BytesN(name+".sig.pk", 1)}}
}

// symEntryFull: an entry all of whose serialised fields are symbolic and independent; the payload has a
// symbolic length 0..L, link lists 0..2 elements, the identity is present or absent.
func symEntryFull(name string, v uint64) *entry.Entry {
	e := &entry.Entry{
		Payload: vx.Bytes(name+".payload", vx.Param("L", 2)),
		LogID:   string(vx.BytesN(name+".logid", 1)),
		Next:    cids(10, vx.Choice(name+".nNext", 3)),
		Refs:    cids([]int{20, 11}[vx.Choice(name+".refsOverlap", 2)], vx.Choice(name+".nRefs", 3)), // base 11: the lists may share an identifier
		V:       v,
		Key:     vx.BytesN(name+".key", 1),
		Sig:     vx.BytesN(name+".sig", 1),
		Clock:   entry.NewLamportClock(vx.BytesN(name+".clock.id", 1), vx.Int(name+".clock.time")),
	}
	if vx.Choice(name+".hasIdentity", 2) == 1 {
		e.Identity = symIdentity(name + ".identity")
	}
	return e
}

var mutNames = []string{"payload-byte", "payload-length", "log-id", "next", "refs", "version", "key", "sig", "clock-id", "clock-time",
	"identity-presence", "identity-id", "identity-pk", "identity-type", "identity-sig-id", "identity-sig-pk"}

// mutate returns a copy of e in which exactly one serialised field differs (the new value is symbolic and assumed different).
func mutate(e *entry.Entry, k int) *entry.Entry {
	o := *e
	if e.Identity != nil {
		id := *e.Identity
		sg := *e.Identity.Signatures
		id.Signatures = &sg
		o.Identity = &id
	}
	other := func(name string, old []byte) []byte {
		b := vx.BytesN(name, 1)
		vx.Assume(len(old) != 1 || b[0] != old[0])
		return b
	}
	switch k {
	case 0:
		vx.Assume(len(e.Payload) > 0)
		p := append([]byte{}, e.Payload...)
		i := vx.Choice("m.pos", len(p))
		p[i] = vx.Byte("m.byte")
		vx.Assume(p[i] != e.Payload[i])
		o.Payload = p
	case 1:
		o.Payload = append(append([]byte{}, e.Payload...), vx.Byte("m.extra"))
	case 2:
		o.LogID = string(other("m.logid", []byte(e.LogID)))
	case 3:
		o.Next = append(append([]cid.Cid{}, e.Next...), vx.Cid(30))
	case 4:
		vx.Assume(e.V > 1)
		o.Refs = append(append([]cid.Cid{}, e.Refs...), vx.Cid(31))
	case 5:
		o.V = 3 - e.V
		vx.Assume(len(e.Refs) == 0) // v1 blocks carry no reference list: only then is the version the single difference
	case 6:
		o.Key = other("m.key", e.Key)
	case 7:
		o.Sig = other("m.sig", e.Sig)
	case 8:
		o.Clock = entry.NewLamportClock(other("m.clockid", e.Clock.ID), e.Clock.Time)
	case 9:
		t := vx.Int("m.time")
		vx.Assume(t != e.Clock.Time)
		o.Clock = entry.NewLamportClock(e.Clock.ID, t)
	case 10:
		if e.Identity == nil {
			o.Identity = symIdentity("m.identity")
		} else {
			o.Identity = nil
		}
	default:
		vx.Assume(e.Identity != nil)
		switch k {
		case 11:
			o.Identity.ID = string(other("m.iid", []byte(e.Identity.ID)))
		case 12:
			o.Identity.PublicKey = other("m.ipk", e.Identity.PublicKey)
		case 13:
			o.Identity.Type = map[string]string{"orbitdb": "other", "other": "orbitdb"}[e.Identity.Type]
		case 14:
			o.Identity.Signatures.ID = other("m.isid", e.Identity.Signatures.ID)
		case 15:
			o.Identity.Signatures.PublicKey = other("m.ispk", e.Identity.Signatures.PublicKey)
		}
	}
	return &o
}

func assertSameFields(prop string, d iface.IPFSLogEntry, e *entry.Entry, what string) {
	vx.Assert(prop, bytes.Equal(d.GetPayload(), e.Payload), "payload bytes survive "+what)
	vx.Assert(prop, d.GetLogID() == e.LogID, "log id survives "+what)
	vx.Assert(prop, sameCids(d.GetNext(), e.Next), "predecessor list survives "+what)
	if e.V > 1 {
		vx.Assert(prop, sameCids(d.GetRefs(), e.Refs), "reference list survives "+what)
	}
	vx.Assert(prop, d.GetV() == e.V, "version survives "+what)
	vx.Assert(prop, bytes.Equal(d.GetKey(), e.Key), "key survives "+what)
	vx.Assert(prop, bytes.Equal(d.GetSig(), e.Sig), "signature survives "+what)
	vx.Assert(prop, d.GetClock() != nil && bytes.Equal(d.GetClock().GetID(), e.Clock.ID) && d.GetClock().GetTime() == e.Clock.Time, "clock survives "+what)
	if e.Identity == nil {
		vx.Assert(prop, d.GetIdentity() == nil, "absent identity survives "+what)
	} else {
		i := d.GetIdentity()
		vx.Assert(prop, i != nil && i.ID == e.Identity.ID && i.Type == e.Identity.Type && bytes.Equal(i.PublicKey, e.Identity.PublicKey) &&
			i.Signatures != nil && bytes.Equal(i.Signatures.ID, e.Identity.Signatures.ID) && bytes.Equal(i.Signatures.PublicKey, e.Identity.Signatures.PublicKey),
			"identity survives "+what)
	}
}

// H_C08_roundtrip: default codec: write, read back, compare every field; re-encode; canonicity.
func H_C08_roundtrip() {
	ids, _ := realIdentities("userA")
	api := newMemAPI()
	io, err := cbor.IO(&entry.Entry{}, &entry.LamportClock{})
	vx.Assert("C08", err == nil, "the default codec is available")
	v := uint64(1 + vx.Choice("v", 2))
	e := symEntryFull("e", v)
	h, err := entry.ToMultihashWithIO(ctx, e, api, nil, io)
	vx.Assert("C08", err == nil && h.Defined(), "writing an entry succeeds")
	if err != nil {
		return
	}
	d, err := entry.FromMultihashWithIO(ctx, api, h, ids[0].Provider, io)
	vx.Assert("C08", err == nil && d != nil, "reading the entry back succeeds")
	if err != nil {
		return
	}
	vx.Cover("read-back")
	vx.Assert("C08", d.GetHash().Equals(h), "the decoded entry carries the identifier it was requested by")
	assertSameFields("C08", d, e, "write/read")
	h2, err := entry.ToMultihashWithIO(ctx, d, api, nil, io)
	vx.Assert("C08", err == nil && h2.Equals(h), "re-encoding the decoded entry gives the same identifier")
	// canonicity: a structurally equal entry built differently (fresh slices of other capacity, copied clock,
	// additional-data map populated in another order) has the same identifier
	c := &entry.Entry{Payload: append(make([]byte, 0, 8), e.Payload...), LogID: e.LogID, Next: append(make([]cid.Cid, 0, 4), e.Next...),
		Refs: append(make([]cid.Cid, 0, 4), e.Refs...), V: e.V, Key: append([]byte{}, e.Key...), Sig: append([]byte{}, e.Sig...),
		Clock: entry.CopyLamportClock(e.Clock), Identity: e.Identity, Hash: vx.Cid(70)}
	h3, err := entry.ToMultihashWithIO(ctx, c, api, nil, io)
	vx.Assert("C08", err == nil && h3.Equals(h), "the same logical entry always encodes to the same identifier")
	// distinct logical entries get distinct identifiers: one serialised field changed
	k := vx.Choice("mutation", len(mutNames))
	vx.Sig("field=" + mutNames[k])
	o := mutate(e, k)
	ho, err := entry.ToMultihashWithIO(ctx, o, api, nil, io)
	vx.Assume(err == nil)
	vx.Assert("C08", !ho.Equals(h), "entries that differ in a serialised field have different identifiers")
	// decoding does not depend on what the process decoded before: the second entry reads back with its own fields
	d2, err := entry.FromMultihashWithIO(ctx, api, ho, ids[0].Provider, io)
	vx.Assert("C08", err == nil && d2 != nil, "reading a second entry back succeeds")
	if err == nil && d2 != nil {
		assertSameFields("C08", d2, o, "write/read of a second entry in the same process")
	}
	vx.Cover("mutated-" + mutNames[k])
}

func linkKeyBytes(b byte) []byte {
	k := make([]byte, 32)
	for i := range k {
		k[i] = b
	}
	return k
}

// H_C08_linkkey: link-encrypting codec: every field equal after read-back with the same key.
func H_C08_linkkey() {
	ids, _ := realIdentities("userA")
	api := newMemAPI()
	base, err := cbor.IO(&entry.Entry{}, &entry.LamportClock{})
	vx.Assert("C08", err == nil, "the default codec is available")
	key, err := enc.NewSecretbox(linkKeyBytes(7))
	vx.Assert("C08", err == nil, "a link key can be created")
	io := base.ApplyOptions(&cbor.Options{LinkKey: key})
	e := symEntryFull("e", 2)
	if vx.Choice("legacyLink", 2) == 1 {
		// a predecessor and a reference that are real identifiers of other forms than the store hands out today:
		// CIDv0 (a legacy dag-pb entry underneath a migrated log) and CIDv1 dag-pb
		digest := make([]byte, 32)
		for i := range digest {
			digest[i] = byte(3*i + 5)
		}
		m, err := mh.Encode(digest, mh.SHA2_256)
		if err != nil {
			panic(err)
		}
		e.Next = append(e.Next, cid.NewCidV0(m))
		e.Refs = append(e.Refs, cid.NewCidV1(cid.DagProtobuf, m))
		vx.Cover("legacy-link-forms")
	}
	pre, err := io.PreSign(e)
	vx.Assert("C08", err == nil, "the pre-sign step succeeds")
	if err != nil {
		return
	}
	h, err := entry.ToMultihashWithIO(ctx, pre, api, nil, io)
	vx.Assert("C08", err == nil && h.Defined(), "writing an entry with encrypted links succeeds")
	if err != nil {
		return
	}
	d, err := entry.FromMultihashWithIO(ctx, api, h, ids[0].Provider, io)
	vx.Assert("C08", err == nil && d != nil, "reading the entry back with the same link key succeeds")
	if err != nil {
		return
	}
	vx.Cover("read-back-linkkey")
	assertSameFields("C08", d, e, "write/read with a link key")
}

// H_C08_manifest: the manifest of a log encodes canonically and decodes to its id and heads.
func H_C08_manifest() {
	cfg := histParams()
	h := newHist(cfg)
	h.run(nil, nil)
	L := h.logs[0]
	io, err := cbor.IO(&entry.Entry{}, &entry.LamportClock{})
	vx.Assert("C08", err == nil, "the default codec is available")
	jl := L.ToJSONLog()
	m1, err := io.Write(ctx, h.api, jl, nil)
	vx.Assert("C08", err == nil, "writing a manifest succeeds")
	m2, err2 := io.Write(ctx, h.api, &iface.JSONLog{ID: jl.ID, Heads: append(make([]cid.Cid, 0, 8), jl.Heads...)}, nil)
	vx.Assert("C08", err2 == nil && m1.Equals(m2), "the same manifest always encodes to the same identifier")
	nd, err := io.Read(ctx, h.api, m1)
	vx.Assert("C08", err == nil, "reading the manifest back succeeds")
	if err != nil {
		return
	}
	back, err := io.DecodeRawJSONLog(nd)
	vx.Assert("C08", err == nil && back != nil && back.ID == jl.ID && sameCids(back.Heads, jl.Heads), "the decoded manifest has the same id and heads")
	vx.Cover("manifest")
	var _ *ipfslog.IPFSLog = L
}

var _ = register("H_smoke_cbor", H_smoke_cbor)
var _ = register("H_C08_roundtrip", H_C08_roundtrip)
var _ = register("H_C08_linkkey", H_C08_linkkey)
var _ = register("H_C08_manifest", H_C08_manifest)

// H_C08_legacy: legacy (v0) entries through the protobuf/JSON codec: write, read back, compare every field
// the v0 format carries; the decoded entry carries the identifier it was requested by.
func H_C08_legacy() {
	ids, _ := realIdentities("userA")
	api := newMemAPI()
	io, err := pbio.IO(&entry.Entry{}, &entry.LamportClock{})
	vx.Assert("C08", err == nil && io != nil, "the legacy codec is available")
	e := &entry.Entry{
		Payload: vx.Bytes("payload", vx.Param("L", 2)),
		LogID:   string(vx.BytesN("logid", 1)),
		Next:    cids(10, vx.Choice("nNext", 3)),
		V:       0,
		Key:     vx.BytesN("key", 1),
		Sig:     vx.BytesN("sig", 1),
		Clock:   entry.NewLamportClock(vx.BytesN("clock.id", 1), vx.Int("clock.time")),
	}
	if vx.Choice("legacyLink", 2) == 1 {
		// what legacy logs really link to: a CIDv0 (bare sha2-256 multihash of a dag-pb block)
		digest := make([]byte, 32)
		for i := range digest {
			digest[i] = byte(5*i + 2)
		}
		m, err := mh.Encode(digest, mh.SHA2_256)
		if err != nil {
			panic(err)
		}
		e.Next = append(e.Next, cid.NewCidV0(m))
		vx.Cover("legacy-v0-link")
	}
	h, err := entry.ToMultihashWithIO(ctx, e, api, nil, io)
	vx.Assert("C08", err == nil && h.Defined(), "writing a legacy entry succeeds")
	if err != nil {
		return
	}
	d, err := entry.FromMultihashWithIO(ctx, api, h, ids[0].Provider, io)
	vx.Assert("C08", err == nil && d != nil, "reading the legacy entry back succeeds")
	if err != nil {
		return
	}
	vx.Cover("legacy-read-back")
	vx.Assert("C08", d.GetHash().Equals(h), "the decoded legacy entry carries the identifier it was requested by")
	vx.Assert("C08", jsonSame(d.GetPayload(), e.Payload), "legacy payload survives write/read (up to JSON's UTF-8 coercion)")
	vx.Assert("C08", jsonSame([]byte(d.GetLogID()), []byte(e.LogID)) && sameCids(d.GetNext(), e.Next) && d.GetV() == 0, "legacy log id, predecessors and version survive write/read")
	vx.Assert("C08", bytes.Equal(d.GetKey(), e.Key) && bytes.Equal(d.GetSig(), e.Sig), "legacy key and signature survive write/read")
	vx.Assert("C08", d.GetClock() != nil && bytes.Equal(d.GetClock().GetID(), e.Clock.ID) && d.GetClock().GetTime() == e.Clock.Time, "legacy clock survives write/read")
	h2, err := entry.ToMultihashWithIO(ctx, e, api, nil, io)
	vx.Assert("C08", err == nil && h2.Equals(h), "the same legacy entry always encodes to the same identifier")
	// the same block requested under the other form of its identifier (CIDv1/dag-pb of the same multihash, what a
	// migrated log links to): block stores are keyed by multihash and hand the block out
	if alt := vx.AltForm(h); !alt.Equals(h) {
		dg := api.Dag().(*memDag)
		if dg.alias == nil {
			dg.alias = map[string]string{}
		}
		dg.alias[alt.String()] = h.String()
		d2, err := entry.FromMultihashWithIO(ctx, api, alt, ids[0].Provider, io)
		vx.Assert("C08", err == nil && d2 != nil, "reading the legacy entry back succeeds (other form of its identifier)")
		if err == nil && d2 != nil {
			vx.Assert("C08", d2.GetHash().Equals(alt), "the decoded legacy entry carries the identifier it was requested by (other form of its identifier)")
			vx.Assert("C08", jsonSame(d2.GetPayload(), e.Payload) && sameCids(d2.GetNext(), e.Next) && d2.GetV() == 0, "legacy payload and predecessors survive write/read (other form of its identifier)")
			vx.Cover("legacy-read-by-other-form")
		}
	}
}

// jsonSame: equality of two byte strings after encoding/json's coercion to valid UTF-8 (the legacy format stores
// the payload as a JSON string, which cannot carry arbitrary bytes).
func jsonSame(a, b []byte) bool {
	// through a JSON string and back: what encoding/json makes of the bytes (invalid UTF-8 -> U+FFFD)
	var sa, sb string
	ja, err1 := json.Marshal(string(a))
	jb, err2 := json.Marshal(string(b))
	if err1 != nil || err2 != nil || json.Unmarshal(ja, &sa) != nil || json.Unmarshal(jb, &sb) != nil {
		return false
	}
	return sa == sb
}

var _ = register("H_C08_legacy", H_C08_legacy)

// H_C08_created: an entry made by CreateEntryWithIO is the entry that was stored: after the caller goes on using
// what it handed in (ticks or merges the clock to build its next entry, reuses the link slices) the returned
// entry still equals its stored block in every field and still encodes to its identifier (seed C08-k).
func H_C08_created() {
	ids, _ := realIdentities("userA")
	api := newMemAPI()
	io, err := cbor.IO(&entry.Entry{}, &entry.LamportClock{})
	vx.Assert("C08", err == nil, "the default codec is available")
	t := vx.IntRange("t", 0, 1<<62)
	clk := entry.NewLamportClock(ids[0].PublicKey, t)
	next, refs := cids(10, 1+vx.Choice("nn", 2)), cids(20, vx.Choice("nr", 2))
	data := &entry.Entry{Payload: []byte("hi"), LogID: "X", Next: next, Refs: refs, Clock: clk}
	e, err := entry.CreateEntryWithIO(ctx, api, ids[0], data, nil, io)
	vx.Assert("C08", err == nil && e != nil, "creating an entry succeeds")
	if err != nil || e == nil {
		return
	}
	t0 := e.GetClock().GetTime()
	vx.Assert("C08", t0 == t, "the created entry carries the clock time it was given")
	switch vx.Choice("after", 3) {
	case 0:
		clk.Tick()
	case 1:
		clk.Merge(entry.NewLamportClock(ids[0].PublicKey, t+3))
	case 2:
		data.SetClock(entry.NewLamportClock(ids[0].PublicKey, t+1))
	}
	next[0] = vx.Cid(11)
	d, err := entry.FromMultihashWithIO(ctx, api, e.GetHash(), ids[0].Provider, io)
	vx.Assert("C08", err == nil && d != nil, "reading the created entry back succeeds")
	if err != nil || d == nil {
		return
	}
	vx.Cover("created-then-inputs-reused")
	vx.Assert("C08", e.GetClock().GetTime() == t0, "a created entry keeps its clock time when the caller advances the clock it passed in")
	assertSameFields("C08", d, e.(*entry.Entry), "created entry / its stored block after the caller reused its inputs")
	h2, err := entry.ToMultihashWithIO(ctx, e, api, nil, io)
	vx.Assert("C08", err == nil && h2.Equals(e.GetHash()), "a created entry still encodes to its identifier after the caller reused its inputs")
	vx.Assert("C08", e.Verify(ids[0].Provider, io) == nil, "a created entry still verifies after the caller reused its inputs")
}

var _ = register("H_C08_created", H_C08_created)
