//go:build verif

package zz_verif

import (
	"sync"

	ipfslog "berty.tech/go-ipfs-log"
	"berty.tech/go-ipfs-log/accesscontroller"
	idp "berty.tech/go-ipfs-log/identityprovider"
	"berty.tech/go-ipfs-log/iface"
	"berty.tech/go-ipfs-log/internal/vx"
)

const (
	cAppend = iota
	cJoin
	cValues
	cHeads
	cGetEntries
	cGetHas
	cLen
	cSnapshot
	cJSONLog
	cMultihash
	cIterator
	cSetIdentity
	cRawHeads
	cJoinBounded
	cMergedFrom
	cIterStream
	cNumOps
)

var copNames = []string{"Append", "Join", "Values", "Heads", "GetEntries", "Get/Has", "Len", "ToSnapshot", "ToJSONLog", "ToMultihash", "Iterator", "SetIdentity", "RawHeads", "Join(size)", "MergedFrom", "Iterator(streamed)"}

type copResult struct {
	op        int
	entry     iface.IPFSLogEntry // Append
	err       error
	values    []iface.IPFSLogEntry // Values / ToSnapshot / Iterator
	heads     []iface.IPFSLogEntry // Heads / RawHeads
	entries   []iface.IPFSLogEntry // GetEntries
	n         int
	done      bool
	emap      iface.IPFSLogOrderedEntries // the value GetEntries returned
	into      *ipfslog.IPFSLog            // MergedFrom: the log that merged the shared log
	snapHeads []string                    // ToSnapshot: the head identifiers the snapshot lists
}

func runCop(h *hist, L *ipfslog.IPFSLog, other *ipfslog.IPFSLog, op int, g int, res *copResult) {
	res.op = op
	switch op {
	case cAppend:
		res.entry, res.err = L.Append(ctx, []byte{'c', byte('0' + g)}, nil)
	case cJoin:
		_, res.err = L.Join(other, -1)
	case cValues:
		res.values = L.Values().Slice()
	case cHeads:
		res.heads = L.Heads().Slice()
	case cGetEntries:
		res.emap = L.GetEntries()
		res.entries = res.emap.Slice()
	case cGetHas:
		for _, e := range entriesOf(other) {
			got, ok := L.Get(e.GetHash())
			if ok != (got != nil) {
				res.n = -1
			}
			L.Has(e.GetHash())
		}
	case cLen:
		res.n = L.Len()
	case cSnapshot:
		s := L.ToSnapshot()
		res.values = s.Values
		for _, c := range s.Heads {
			res.snapHeads = append(res.snapHeads, c.String())
		}
	case cJSONLog:
		res.n = len(L.ToJSONLog().Heads)
	case cMultihash:
		_, res.err = L.ToMultihash(ctx)
	case cIterator:
		ch := make(chan iface.IPFSLogEntry, 16)
		res.err = L.Iterator(&ipfslog.IteratorOptions{}, ch)
		res.values, _ = drain(ch, 16)
		res.values = reverseEntries(res.values)
	case cMergedFrom:
		// the shared log is read as the source of another log's merge (through its public accessors)
		res.into = freshObserver(h, g)
		_, res.err = res.into.Join(L, -1)
	case cIterStream:
		// an unbuffered output: the iterator hands over one entry at a time to a consumer that itself uses the
		// log between two receives (reads it, and appends once) - streaming must not hold the log's lock
		ch := make(chan iface.IPFSLogEntry)
		cdone := make(chan struct{})
		go func() {
			first := true
			for e := range ch {
				res.values = append(res.values, e)
				L.Has(e.GetHash())
				if first {
					first = false
					L.Append(ctx, []byte{'s', byte('0' + g)}, nil)
				}
			}
			close(cdone)
		}()
		res.err = L.Iterator(&ipfslog.IteratorOptions{}, ch)
		<-cdone
		res.values = reverseEntries(res.values)
	case cSetIdentity:
		L.SetIdentity(h.ids[(g+1)%h.cfg.W])
	case cRawHeads:
		res.heads = L.RawHeads().Slice()
	case cJoinBounded:
		_, res.err = L.Join(other, 1)
	}
	res.done = true
}

// H_C13: G goroutines each perform one operation on one shared log; every interleaving at lock
// operations is explored, with the happens-before race detector on every heap cell.
func H_C13() {
	vx.ExploreOff()
	cfg := histParams()
	h := newHist(cfg)
	h.run(nil, nil)
	L, other := h.logs[0], h.logs[1]
	G := vx.Param("G", 2)
	ops := make([]int, G)
	mergedFrom := vx.Param("MF", 0) == 1 // the last operation is another log merging the shared one (a run of its own)
	stream := vx.Param("STREAM", 0) == 1 // the last operation is the streamed iterator (a run of its own: it adds a consumer goroutine)
	for g := range ops {
		if stream && g == G-1 {
			ops[g] = cIterStream
			continue
		}
		if mergedFrom && g == G-1 {
			ops[g] = cMergedFrom
			continue
		}
		ops[g] = vx.Choice("cop", cNumOps-2)
		if g > 0 {
			vx.Assume(ops[g-1] <= ops[g]) // unordered combinations
		}
	}
	if f := vx.Param("ONLY", -1); f >= 0 {
		vx.Assume(ops[0] == f)
	}
	sig := "ops="
	for g, o := range ops {
		if g > 0 {
			sig += "+"
		}
		sig += copNames[o]
	}
	vx.ObserveS("ops", sig)
	bounded := false
	for _, o := range ops {
		if o == cJoinBounded {
			bounded = true
		}
	}
	denyFirst := vx.Param("DENYAPP", 0) == 1 // the shared log's controller refuses the append of goroutine 0
	if denyFirst {
		L.AccessController = &denyPayload{p: []byte{'c', '0'}, inner: L.AccessController}
	}
	before := entriesOf(L)
	results := make([]copResult, G)
	var wg sync.WaitGroup
	h.api.gated = true
	vx.ExploreOn()
	for g := 0; g < G; g++ {
		wg.Add(1)
		go func(g int) {
			defer wg.Done()
			runCop(h, L, other, ops[g], g, &results[g])
		}(g)
	}
	wg.Wait()
	vx.ExploreOff()
	vx.Cover("all-returned")
	final := entriesOf(L)
	fset := hashSet(final)
	// structural guarantees on the final state
	propOverride = "C13"
	checkHeads(L, "after concurrent operations")
	checkValues(h, L, "after concurrent operations")
	if !bounded { // a size-bounded merge drops entries by design (C16)
		vx.Assert("C13", subset(hashSet(before), fset), "entries present before the concurrent operations are still there")
	}
	var appended []iface.IPFSLogEntry
	for g := range results {
		r := &results[g]
		vx.Assert("C13", r.done, "every operation returns")
		switch r.op {
		case cAppend:
			if denyFirst && g == 0 {
				vx.Assert("C13", r.err != nil, "an append the controller refuses reports an error")
				vx.Cover("refused-concurrent-append")
				continue
			}
			vx.Assert("C13", r.err == nil && r.entry != nil, "a concurrent append succeeds")
			if r.entry != nil {
				n := 0
				for _, e := range final {
					if hstr(e) == hstr(r.entry) {
						n++
					}
				}
				if !bounded {
					vx.Assert("C13", n == 1, "every successful append appears exactly once in the log")
				}
				appended = append(appended, r.entry)
			}
		case cJoin:
			if r.err == nil && !bounded {
				vx.Assert("C13", subset(hashSet(entriesOf(other)), fset), "a successful concurrent merge added the other log's entries")
			}
		case cValues, cSnapshot, cIterator, cIterStream:
			v := r.values
			vx.Assert("C13", len(hashSet(v)) == len(v), "a concurrent read of the values has no duplicate")
			if r.op == cSnapshot && !bounded {
				// the snapshot is one state: the heads it lists are the heads of the values it lists (seed C13-k)
				sh := map[string]bool{}
				for _, k := range r.snapHeads {
					sh[k] = true
				}
				vx.Assert("C13", len(sh) == len(r.snapHeads) && sameSet(sh, refHeads(v)), "a concurrent ToSnapshot lists the heads of the values it lists (one state)")
			}
			if !bounded {
				vx.Assert("C13", subset(hashSet(v), fset) && len(v) >= len(before), "a concurrent read of the values lies between the initial and the final state")
			}
			pos := map[string]int{}
			for i, e := range v {
				pos[hstr(e)] = i
			}
			ok := true
			for i, e := range v {
				for _, nx := range e.GetNext() {
					p, in := pos[nx.String()]
					if in && p >= i {
						ok = false
					}
					if !in && fset[nx.String()] && !bounded {
						ok = false // predecessor-closed w.r.t. the log
					}
				}
			}
			vx.Assert("C13", ok, "a concurrent read of the values is causally ordered and predecessor-closed")
		case cHeads, cRawHeads:
			hs := hashSet(r.heads)
			if !bounded {
				vx.Assert("C13", subset(hs, fset), "concurrently read heads are entries of the log")
			}
			past := map[string]bool{}
			okh := true
			for _, e := range r.heads {
				p := refPast([]string{hstr(e)}, final)
				for k := range p {
					if k != hstr(e) && hs[k] {
						okh = false // a head that is an ancestor of another head
					}
					past[k] = true
				}
			}
			vx.Assert("C13", okh, "concurrently read heads are mutually unordered (consistent with some entry set)")
		case cGetEntries:
			vx.Assert("C13", r.emap.Len() == len(r.entries) && sameSeq(r.emap.Slice(), r.entries), "the value a concurrent GetEntries returned is one fixed state: later operations do not change it")
			if !bounded {
				vx.Assert("C13", subset(hashSet(before), hashSet(r.entries)) && subset(hashSet(r.entries), fset), "a concurrent GetEntries lies between the initial and the final state")
			}
		case cGetHas:
			vx.Assert("C13", r.n == 0, "Get reports presence consistently")
		case cMergedFrom:
			vx.Assert("C13", r.err == nil, "merging from the shared log succeeds")
			if r.err == nil && !bounded {
				checkHeads(r.into, "log that merged the shared log during concurrent operations")
				checkValues(h, r.into, "log that merged the shared log during concurrent operations")
				vx.Assert("C13", subset(hashSet(before), hashSet(entriesOf(r.into))) && subset(hashSet(entriesOf(r.into)), fset), "a merge from the shared log took a state between the initial and the final one")
			}
		}
	}
	// concurrent appends are serialised into one chain
	if len(appended) == 2 && !bounded {
		a, b := appended[0], appended[1]
		pa := refPast([]string{hstr(a)}, final)
		pb := refPast([]string{hstr(b)}, final)
		vx.Assert("C13", pa[hstr(b)] != pb[hstr(a)], "concurrent appends are serialised into one chain")
		vx.Cover("two-appends")
	}
}

var _ = register("H_C13", H_C13)

// gatedLog passes a log to Join through the public iface.IPFSLog interface with gates at the points where
// Join reads the source (used for deterministic native replay of schedules; the embedded log does the work).
type gatedLog struct {
	*ipfslog.IPFSLog
	tag string
}

func (g *gatedLog) GetEntries() iface.IPFSLogOrderedEntries {
	vx.GateSeq(g.tag + ":GetEntries")
	return g.IPFSLog.GetEntries()
}

func (g *gatedLog) RawHeads() iface.IPFSLogOrderedEntries {
	vx.GateSeq(g.tag + ":RawHeads")
	return g.IPFSLog.RawHeads()
}

func asSource(l *ipfslog.IPFSLog, tag string) iface.IPFSLog {
	if vx.Param("WRAP", 0) == 1 {
		return &gatedLog{IPFSLog: l, tag: tag}
	}
	return l
}

var scenarioNames = []string{"Join||Append(source)", "Join||Join(back)", "Join||Join(source<-third)", "Join||Append+Append(source)"}

// H_C14: a merge from a log that is concurrently appended to / merged into / merging back terminates and
// yields the union with a state the source really had; every interleaving at lock operations is explored.
// gateAC is a replay gate inside the destination's critical section (its access controller is consulted
// after the snapshots of the source were taken, while the destination's lock is held).
type gateAC struct{ inner accesscontroller.Interface }

func (g *gateAC) CanAppend(e accesscontroller.LogEntry, ip idp.Interface, c accesscontroller.CanAppendAdditionalContext) error {
	vx.GateSeq("A:CanAppend:" + string(e.GetPayload()))
	return g.inner.CanAppend(e, ip, c)
}

func H_C14() {
	vx.ExploreOff()
	cfg := histParams()
	h := newHist(cfg)
	h.run(nil, nil)
	A, B := h.logs[0], h.logs[1]
	if vx.Param("EMPTYDST", 0) == 1 && vx.Choice("emptyDst", 2) == 1 {
		A = freshObserver(h, 0) // a fresh, empty destination being filled from a live peer
		vx.Sig("destination=empty")
	}
	if vx.Param("WRAP", 0) == 1 {
		A.AccessController = &gateAC{inner: A.AccessController}
	}
	nsc := 2
	if cfg.R >= 3 {
		nsc = 3
	}
	sc := vx.Choice("scenario", nsc+1)
	if sc == nsc {
		sc = 3
	}
	if only := vx.Param("SCEN", -1); only >= 0 {
		vx.Assume(sc == only)
	}
	vx.Sig("scenario=" + scenarioNames[sc])
	aBefore, bBefore := hashSet(entriesOf(A)), hashSet(entriesOf(B))
	h.api.gated = true
	var wg sync.WaitGroup
	var errA, errB error
	vx.ExploreOn()
	wg.Add(2)
	go func() {
		defer wg.Done()
		_, errA = A.Join(asSource(B, "B"), -1)
	}()
	go func() {
		defer wg.Done()
		switch sc {
		case 0:
			_, errB = B.Append(ctx, []byte("live"), nil)
		case 1:
			_, errB = B.Join(asSource(A, "A"), -1)
		case 2:
			_, errB = B.Join(asSource(h.logs[2], "C"), -1)
		case 3:
			B.Append(ctx, []byte("live1"), nil)
			_, errB = B.Append(ctx, []byte("live2"), nil)
		}
	}()
	wg.Wait()
	vx.ExploreOff()
	vx.Cover("both-returned")
	vx.Assert("C14", errA == nil && errB == nil, "both concurrent operations succeed")
	aFinal, bFinal := entriesOf(A), entriesOf(B)
	aSet, bSet := hashSet(aFinal), hashSet(bFinal)
	vx.Assert("C14", subset(aBefore, aSet) && subset(bBefore, aSet), "the result contains the destination's entries and everything the source held when the merge began")
	vx.Assert("C14", subset(aSet, union(aBefore, bSet)), "the result contains nothing the source never held")
	heads := A.Heads().Slice()
	vx.Assert("C14", subset(hashSet(heads), aSet), "every head of the result is an entry of the result")
	for _, hd := range heads {
		past := refPast([]string{hstr(hd)}, append(append([]iface.IPFSLogEntry{}, aFinal...), bFinal...))
		vx.Assert("C14", subset(past, aSet), "all of a head's history that the source held is included in the result")
	}
	vx.Assert("C14", sameSet(hashSet(heads), refHeads(aFinal)), "the heads of the result are its unreferenced entries")
	if len(aSet) > len(union(aBefore, bBefore)) {
		vx.Cover("merged-live-entry")
	}
	if sc == 1 {
		vx.Assert("C14", subset(aBefore, bSet) && sameSet(hashSet(B.Heads().Slice()), refHeads(bFinal)), "the symmetric merge is consistent as well")
	}
}

var _ = register("H_C14", H_C14)
