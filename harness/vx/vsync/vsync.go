// Package vsync stands in for package sync in steered replay builds of the module's files: same API, with a
// scheduling hand-shake (vx.SyncEnter) before every acquire-type operation. Everything else is package sync.
package vsync

import (
	"sync"

	"berty.tech/go-ipfs-log/internal/vx"
)

type (
	Locker = sync.Locker
	Once   = sync.Once
	Map    = sync.Map
	Pool   = sync.Pool
)

func OnceFunc(f func()) func() { return sync.OnceFunc(f) }

// Go replaces the go statement: the new goroutine gets a structural identity.
func Go(f func()) { vx.SyncGo(f) }

type Mutex struct{ m sync.Mutex }

func (m *Mutex) Lock() {
	leave := vx.SyncEnter("(*sync.Mutex).Lock")
	m.m.Lock()
	leave()
}
func (m *Mutex) Unlock()       { m.m.Unlock() }
func (m *Mutex) TryLock() bool { return m.m.TryLock() }

type RWMutex struct{ m sync.RWMutex }

func (m *RWMutex) Lock() {
	leave := vx.SyncEnter("(*sync.RWMutex).Lock")
	m.m.Lock()
	leave()
}
func (m *RWMutex) Unlock() { m.m.Unlock() }
func (m *RWMutex) RLock() {
	leave := vx.SyncEnter("(*sync.RWMutex).RLock")
	m.m.RLock()
	leave()
}
func (m *RWMutex) RUnlock()        { m.m.RUnlock() }
func (m *RWMutex) TryLock() bool   { return m.m.TryLock() }
func (m *RWMutex) TryRLock() bool  { return m.m.TryRLock() }
func (m *RWMutex) RLocker() Locker { return (*rlocker)(m) }

type rlocker RWMutex

func (r *rlocker) Lock()   { (*RWMutex)(r).RLock() }
func (r *rlocker) Unlock() { (*RWMutex)(r).RUnlock() }

type WaitGroup struct{ w sync.WaitGroup }

func (w *WaitGroup) Add(n int) { w.w.Add(n) }
func (w *WaitGroup) Done()     { w.w.Done() }
func (w *WaitGroup) Wait() {
	leave := vx.SyncEnter("(*sync.WaitGroup).Wait")
	w.w.Wait()
	leave()
}

// Cond: the re-acquisition of the lock inside Wait is part of the Wait event, not a Lock event of its own.
type Cond struct {
	L Locker
	c *sync.Cond
}

func NewCond(l Locker) *Cond {
	raw := l
	switch x := l.(type) {
	case *Mutex:
		raw = &x.m
	case *RWMutex:
		raw = &x.m
	}
	return &Cond{L: l, c: sync.NewCond(raw)}
}

func (c *Cond) Wait() {
	leave := vx.SyncEnter("(*sync.Cond).Wait")
	c.c.Wait()
	leave()
}
func (c *Cond) Signal()    { c.c.Signal() }
func (c *Cond) Broadcast() { c.c.Broadcast() }
