package vx

import (
	"fmt"
	"runtime"
	"strconv"
	"strings"
	"sync"
	"time"
)

// ---- steered replay of a schedule (native mode) -----------------------------------------------------
//
// For counterexamples found by the exploring scheduler the engine records the order of the acquire-type
// operations (Lock, RLock, WaitGroup.Wait, Cond.Wait, semaphore Acquire) issued from the module's code.
// The replay build substitutes thin wrappers for the sync types of the module's files (package vsync; a
// source-level import substitution made at replay time, the code is otherwise the code under test); every
// wrapper calls SyncEnter before the real operation and blocks there until it is this goroutine's turn.
// Goroutines are identified structurally (path of spawn indices from the test goroutine "0").

type syncEvent struct {
	G       string `json:"g"`
	Op      string `json:"op"`
	Blocked bool   `json:"blocked"`
	Resume  bool   `json:"resume"`
}

var steer struct {
	mu        sync.Mutex
	cond      *sync.Cond
	active    bool
	events    []syncEvent
	idx       int
	running   string // goroutine inside an acquire that is expected to return
	notBefore time.Time
	completed map[string]int // blocked calls that have returned since, per goroutine
	paths     map[uint64]string
	spawns    map[string]int
}

func init() { steer.cond = sync.NewCond(&steer.mu) }

// SteerStart arms the steering for the calling goroutine as "0" if the model carries a schedule.
func SteerStart() {
	mu.Lock()
	var evs []syncEvent
	if mdl != nil && len(mdl.Expect) > 0 {
		evs = mdl.Sync
	}
	mu.Unlock()
	steer.mu.Lock()
	defer steer.mu.Unlock()
	steer.events, steer.idx, steer.running = evs, 0, ""
	steer.completed = map[string]int{}
	steer.paths = map[uint64]string{goid(): "0"}
	steer.spawns = map[string]int{}
	steer.active = len(evs) > 0
}

func Steering() bool {
	steer.mu.Lock()
	defer steer.mu.Unlock()
	return steer.active
}

func goid() uint64 {
	var buf [64]byte
	n := runtime.Stack(buf[:], false)
	f := strings.Fields(string(buf[:n]))
	if len(f) < 2 {
		return 0
	}
	id, _ := strconv.ParseUint(f[1], 10, 64)
	return id
}

// SyncGo starts f as a goroutine with a structural identity derived from its parent's.
func SyncGo(f func()) {
	steer.mu.Lock()
	child := ""
	if steer.paths != nil {
		if parent := steer.paths[goid()]; parent != "" {
			child = parent + "." + strconv.Itoa(steer.spawns[parent])
			steer.spawns[parent]++
		}
	}
	steer.mu.Unlock()
	go func() {
		if child != "" {
			id := goid()
			steer.mu.Lock()
			steer.paths[id] = child
			steer.mu.Unlock()
			defer func() {
				steer.mu.Lock()
				delete(steer.paths, id)
				steer.mu.Unlock()
			}()
		}
		f()
	}()
}

func steerGiveUp(why string) {
	if steer.active {
		steer.active = false
		fmt.Printf("VX-STEER-DIVERGED at event %d/%d: %s\n", steer.idx, len(steer.events), why)
	}
	steer.cond.Broadcast()
}

// SyncEnter is called before an acquire-type operation; the returned function is called after it returned.
func SyncEnter(op string) (leave func()) {
	noop := func() {}
	steer.mu.Lock()
	if !steer.active {
		steer.mu.Unlock()
		return noop
	}
	path := steer.paths[goid()]
	if path == "" {
		steer.mu.Unlock()
		return noop
	}
	deadline := time.Now().Add(1500 * time.Millisecond)
	blocked := false
	for steer.active {
		if steer.idx >= len(steer.events) {
			steer.active = false // schedule consumed: run freely from here
			steer.cond.Broadcast()
			break
		}
		ev := steer.events[steer.idx]
		now := time.Now()
		switch {
		case ev.Resume:
			if steer.completed[ev.G] > 0 {
				steer.completed[ev.G]--
				steer.idx++
				steer.cond.Broadcast()
				continue
			}
		case ev.G == path && steer.running == "" && !now.Before(steer.notBefore):
			if ev.Op != op {
				steerGiveUp(fmt.Sprintf("goroutine %s is at %s, schedule expects %s", path, op, ev.Op))
				steer.mu.Unlock()
				return noop
			}
			if ev.Blocked {
				// the call is expected not to return: let it go and give it a moment to enter the wait queue
				blocked = true
				steer.idx++
				steer.notBefore = now.Add(3 * time.Millisecond)
			} else {
				steer.running = path
			}
			steer.cond.Broadcast()
			steer.mu.Unlock()
			return func() {
				steer.mu.Lock()
				if blocked {
					steer.completed[path]++
				} else {
					steer.running = ""
					steer.idx++
				}
				steer.cond.Broadcast()
				steer.mu.Unlock()
			}
		}
		if now.After(deadline) {
			steerGiveUp(fmt.Sprintf("goroutine %s waited too long at %s (schedule expects %s of %s)", path, op, ev.Op, ev.G))
			break
		}
		t := time.AfterFunc(5*time.Millisecond, steer.cond.Broadcast)
		steer.cond.Wait()
		t.Stop()
	}
	steer.mu.Unlock()
	return noop
}
