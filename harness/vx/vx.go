// Package vx: nondeterministic inputs and assertions for harnesses.
// Under the symbolic engine every function here is intercepted; the bodies are the native (replay) mode.
package vx

import "github.com/ipfs/go-cid"

func Int(name string) int                       { panic("native mode not implemented in spike") }
func IntRange(name string, lo, hi int) int      { panic("native") }
func Bool(name string) bool                     { panic("native") }
func Choice(name string, n int) int             { panic("native") }
func Bytes(name string, maxLen int) []byte      { panic("native") }
func Cid(i int) cid.Cid                         { panic("native") }
func FreshCid() cid.Cid                         { panic("native") }
func Assume(c bool)                             {}
func Assert(prop string, c bool, msg string)    {}
func Cover(label string)                        {}
func Observe(key string, v interface{})         {}
