//go:build verif

// Package vx: nondeterministic inputs, assumptions and assertions for the
// verification harnesses (package zz_verif).
//
// Two executions of the same harness exist:
//   - under the symbolic engine (/verif/engine, "gosx") every function of this
//     package is intercepted: Int/Bool/Bytes/... return fresh SMT variables,
//     Choice forks the path, Assert becomes a solver obligation;
//   - natively (this file): the values come from a model.json written by the
//     engine (env VX_MODEL), so that a counterexample - or a passing path that
//     is being cross-validated - is replayed against the real build.
//
// Values are addressed by name plus occurrence index ("n#0", "n#1", ...), in
// the order the harness asks for them, which is the same in both executions.
package vx

import (
	"encoding/json"
	"fmt"
	"os"
	"sort"
	"sync"
	"time"

	"github.com/ipfs/go-cid"
	mh "github.com/multiformats/go-multihash"
)

type model struct {
	Fn        string              `json:"fn"`
	Params    map[string]int      `json:"params"`
	Vals      map[string]uint64   `json:"vals"`       // name#k -> value (ints as two's complement, bools 0/1, choices)
	Bytes     map[string][]uint64 `json:"bytes"`      // name#k -> byte values
	Ranks     map[string]uint64   `json:"ranks"`      // atom key -> rank of its String() form
	Expect    []string            `json:"expect"`     // failure signatures the engine predicts (informational)
	ObsWant   []string            `json:"obs"`        // observation stream the engine predicts (informational)
	Gate      []string            `json:"gate"`       // order in which gated goroutines must proceed (schedule replay)
	Sync      []syncEvent         `json:"sync"`       // acquire-type operations in scheduler order (steered replay builds only)
	ByteRanks map[string]uint64   `json:"byte_ranks"` // order of opaque byte strings (public keys) chosen by the solver
}

var (
	mu       sync.Mutex
	mdl      *model
	cnt      = map[string]int{}
	cidByKey = map[string]cid.Cid{}
	pool     []cid.Cid
	poolNext int
	Failures []string
	sigs     []string
)

// Load reads the model (called by the replay test).
func Load(path string) error {
	b, err := os.ReadFile(path)
	if err != nil {
		return err
	}
	m := &model{}
	if err := json.Unmarshal(b, m); err != nil {
		return err
	}
	mu.Lock()
	defer mu.Unlock()
	mdl = m
	cnt = map[string]int{}
	cidByKey = map[string]cid.Cid{}
	Failures = nil
	sigs = nil
	gateNext = 0
	gateUsed = map[int]bool{}
	// CID pool: real CIDs whose String() order realises the model's rank order.
	n := len(m.Ranks) + 256
	pool = make([]cid.Cid, 0, n)
	for i := 0; i < n; i++ {
		h, err := mh.Sum([]byte(fmt.Sprintf("vx-atom-%d", i)), mh.SHA2_256, -1)
		if err != nil {
			return err
		}
		pool = append(pool, cid.NewCidV1(cid.DagCBOR, h))
	}
	sort.Slice(pool, func(i, j int) bool { return pool[i].String() < pool[j].String() })
	keys := make([]string, 0, len(m.Ranks))
	for k := range m.Ranks {
		keys = append(keys, k)
	}
	sort.Slice(keys, func(i, j int) bool {
		if m.Ranks[keys[i]] != m.Ranks[keys[j]] {
			return m.Ranks[keys[i]] < m.Ranks[keys[j]]
		}
		return keys[i] < keys[j]
	})
	// spread the ranked atoms over the pool so that unranked atoms can still be handed out
	for i, k := range keys {
		cidByKey[k] = pool[i]
	}
	poolNext = len(keys)
	return nil
}

func FnName() string { return mdl.Fn }

func next(name string) string {
	k := cnt[name]
	cnt[name] = k + 1
	return fmt.Sprintf("%s#%d", name, k)
}

func val(name string) uint64 {
	mu.Lock()
	defer mu.Unlock()
	if mdl == nil {
		panic("vx: native mode without model")
	}
	return mdl.Vals[next(name)]
}

// Param is a bound fixed per registered run (not symbolic).
func Param(name string, def int) int {
	mu.Lock()
	defer mu.Unlock()
	if mdl != nil {
		if v, ok := mdl.Params[name]; ok {
			return v
		}
	}
	return def
}

func Int(name string) int                  { return int(int64(val(name))) }
func IntRange(name string, lo, hi int) int { return int(int64(val(name))) }
func Uint64(name string) uint64            { return val(name) }
func Bool(name string) bool                { return val(name) != 0 }
func Byte(name string) byte                { return byte(val(name)) }
func Choice(name string, n int) int        { return int(val(name)) }

// Bytes returns a byte string of symbolic length 0..maxLen with symbolic content.
func Bytes(name string, maxLen int) []byte {
	mu.Lock()
	defer mu.Unlock()
	vs := mdl.Bytes[next(name)]
	out := make([]byte, len(vs))
	for i, v := range vs {
		out[i] = byte(v)
	}
	return out
}

// BytesN returns exactly n symbolic bytes.
func BytesN(name string, n int) []byte {
	mu.Lock()
	defer mu.Unlock()
	vs := mdl.Bytes[next(name)]
	out := make([]byte, n)
	for i := range out {
		if i < len(vs) {
			out[i] = byte(vs[i])
		}
	}
	return out
}

func cidFor(key string) cid.Cid {
	mu.Lock()
	defer mu.Unlock()
	if c, ok := cidByKey[key]; ok {
		return c
	}
	c := pool[poolNext]
	poolNext++
	cidByKey[key] = c
	return c
}

// Cid returns the i-th named atom CID (same i, same CID).
// AlterKeyY returns a copy of an uncompressed secp256k1 public key (04 ‖ X ‖ Y) with one bit of Y flipped that is
// not its parity bit: no longer a curve point, same X, same parity.
func AlterKeyY(key []byte) []byte {
	c := append([]byte{}, key...)
	if len(c) == 65 {
		c[40] ^= 0x10
	}
	return c
}

// AltForm returns the other form of a dag-pb block identifier: CIDv1/dag-pb for a CIDv0 and vice versa (same
// multihash, different identifier); any other identifier is returned unchanged.
func AltForm(c cid.Cid) cid.Cid {
	switch {
	case c.Version() == 0:
		return cid.NewCidV1(cid.DagProtobuf, c.Hash())
	case c.Type() == cid.DagProtobuf && c.Prefix().MhType == 0x12 && c.Prefix().MhLength == 32:
		return cid.NewCidV0(c.Hash())
	}
	return c
}

// Native reports whether the harness runs as an ordinary Go program (replay) rather than under the engine.
func Native() bool { return true }

// AssumeKeyY tells the engine which shape the key has (see the harness that uses it); natively the harness has
// drawn a key of that shape already.
func AssumeKeyY(key interface{}, leadingZero bool) {}

func Cid(i int) cid.Cid { return cidFor(fmt.Sprintf("c%d", i)) }

// FreshCid returns a CID distinct from every other one handed out.
func FreshCid() cid.Cid {
	mu.Lock()
	k := next("f")
	mu.Unlock()
	return cidFor(k)
}

func Assume(c bool) {
	if !c {
		fmt.Println("VX-ASSUME-FALSE")
		panic(assumeFalse{})
	}
}

type assumeFalse struct{}

// IsAssumeFalse reports whether a recovered panic value stems from a false assumption.
func IsAssumeFalse(r interface{}) bool { _, ok := r.(assumeFalse); return ok }

// Sig adds a tag to the signature of every later violation on this path.
func Sig(tag string) {
	mu.Lock()
	sigs = append(sigs, tag)
	mu.Unlock()
}

// Failed reports whether an assertion failed since the last Load.
func Failed() bool {
	mu.Lock()
	defer mu.Unlock()
	return len(Failures) > 0
}

// TagSuffix renders the active signature tags (" | t1 | t2").
func TagSuffix() string {
	mu.Lock()
	defer mu.Unlock()
	s := ""
	for _, t := range sigs {
		s += " | " + t
	}
	return s
}

func Assert(prop string, c bool, msg string) {
	if c {
		return
	}
	mu.Lock()
	s := prop + " | " + msg
	for _, t := range sigs {
		s += " | " + t
	}
	Failures = append(Failures, s)
	mu.Unlock()
	fmt.Println("VX-ASSERT-FAILED " + s)
}

func Cover(label string) {}

func Observe(key string, v int)     { fmt.Printf("VX-OBS %s=%d\n", key, v) }
func ObserveS(key string, s string) { fmt.Printf("VX-OBS %s=%s\n", key, s) }
func ObserveB(key string, b bool)   { fmt.Printf("VX-OBS %s=%v\n", key, b) }

// branch-free connectives (one SMT term under the engine)
func And(a, b bool) bool     { return a && b }
func Or(a, b bool) bool      { return a || b }
func Not(a bool) bool        { return !a }
func Implies(a, b bool) bool { return !a || b }
func Ite(c bool, a, b int) int {
	if c {
		return a
	}
	return b
}
func Sgn(x int) int {
	switch {
	case x < 0:
		return -1
	case x > 0:
		return 1
	}
	return 0
}

// Yield is a scheduling point for the engine's exploring scheduler.
func Yield() {}

// ExploreOn/ExploreOff delimit the region in which the engine explores all goroutine interleavings;
// outside it the engine schedules deterministically. Natively they do nothing.
func ExploreOn()  {}
func ExploreOff() {}

var atomicMu sync.Mutex

// Atomic runs f as one indivisible step (engine: no scheduling point inside; natively: a global mutex).
func Atomic(f func()) {
	atomicMu.Lock()
	defer atomicMu.Unlock()
	f()
}

var (
	gateMu   sync.Mutex
	gateCond = sync.NewCond(&gateMu)
	gateNext int
	gateUsed = map[int]bool{}
)

// Gate(key): schedule replay without hooks in the code under test. Under the engine it tags the calling
// goroutine; the engine records the order in which tagged goroutines enter their next critical section.
// Natively the call blocks until every goroutine that precedes `key` in that order has been released and
// has had a moment (settle delay) to run its critical section. Keys the model does not mention pass freely.
func Gate(key string) {
	mu.Lock()
	var order []string
	if mdl != nil && len(mdl.Expect) > 0 { // only counterexample replays are steered; passing paths run freely
		order = mdl.Gate
	}
	mu.Unlock()
	if Steering() {
		return // the lock-level schedule supersedes the gates
	}
	if len(order) == 0 {
		return
	}
	gateMu.Lock()
	idx := -1
	for i, k := range order {
		if k == key && !gateUsed[i] {
			idx = i
			gateUsed[i] = true
			break
		}
	}
	if idx < 0 {
		gateMu.Unlock()
		return
	}
	deadline := time.Now().Add(400 * time.Millisecond)
	for gateNext < idx && time.Now().Before(deadline) {
		waitWithTimeout(gateCond, 50*time.Millisecond)
	}
	gateMu.Unlock()
	go func() {
		time.Sleep(4 * time.Millisecond) // settle: let the released goroutine run its critical section
		gateMu.Lock()
		if gateNext <= idx {
			gateNext = idx + 1
		}
		gateMu.Unlock()
		gateCond.Broadcast()
	}()
}

func waitWithTimeout(c *sync.Cond, d time.Duration) {
	t := time.AfterFunc(d, c.Broadcast)
	c.Wait()
	t.Stop()
}

// CidKey returns the model key ("f#3", "c7") of an atom CID handed out by FreshCid/Cid, "?" for any other CID.
func CidKey(c cid.Cid) string {
	mu.Lock()
	defer mu.Unlock()
	for k, v := range cidByKey {
		if v.Equals(c) {
			return k
		}
	}
	return "?"
}

// GateSeq(key): like Gate, but the recorded order is the order of passage through the gate itself
// (used at call-backs that run inside a critical section of the code under test).
func GateSeq(key string) { Gate(key) }

// OrderOK reports whether the byte strings vals, known to the model under the names keys, are in the relative
// order the solver chose for them (always true under the engine, where that order is symbolic). Natively the
// harness re-draws random keys until the order matches, so that tie-breaks on key bytes replay faithfully.
func OrderOK(keys []string, vals [][]byte) bool {
	mu.Lock()
	defer mu.Unlock()
	if mdl == nil || len(mdl.ByteRanks) == 0 {
		return true
	}
	for i := range keys {
		ri, oki := mdl.ByteRanks[keys[i]]
		if !oki {
			continue
		}
		for j := i + 1; j < len(keys); j++ {
			rj, okj := mdl.ByteRanks[keys[j]]
			if !okj {
				continue
			}
			c := 0
			switch {
			case string(vals[i]) < string(vals[j]):
				c = -1
			case string(vals[i]) > string(vals[j]):
				c = 1
			}
			if (ri < rj) != (c < 0) {
				return false
			}
		}
	}
	return true
}
