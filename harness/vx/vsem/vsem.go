// Package vsem stands in for golang.org/x/sync/semaphore in steered replay builds (see vsync).
package vsem

import (
	"context"

	"berty.tech/go-ipfs-log/internal/vx"
	"golang.org/x/sync/semaphore"
)

type Weighted struct{ w *semaphore.Weighted }

func NewWeighted(n int64) *Weighted { return &Weighted{w: semaphore.NewWeighted(n)} }

func (s *Weighted) Acquire(ctx context.Context, n int64) error {
	leave := vx.SyncEnter("(*golang.org/x/sync/semaphore.Weighted).Acquire")
	err := s.w.Acquire(ctx, n)
	leave()
	return err
}
func (s *Weighted) Release(n int64)         { s.w.Release(n) }
func (s *Weighted) TryAcquire(n int64) bool { return s.w.TryAcquire(n) }
