//go:build verif

package zz_verif

import (
	"bytes"
	"context"
	"errors"
	"sync"
	"time"

	ipfslog "berty.tech/go-ipfs-log"
	"berty.tech/go-ipfs-log/accesscontroller"
	"berty.tech/go-ipfs-log/entry"
	"berty.tech/go-ipfs-log/entry/sorting"
	idp "berty.tech/go-ipfs-log/identityprovider"
	"berty.tech/go-ipfs-log/iface"
	"berty.tech/go-ipfs-log/internal/vx"
	"berty.tech/go-ipfs-log/io/jsonable"
	"github.com/ipfs/boxo/path"
	"github.com/ipfs/go-cid"
	format "github.com/ipfs/go-ipld-format"
	coreiface "github.com/ipfs/kubo/core/coreiface"
	"github.com/ipfs/kubo/core/coreiface/options"
	"github.com/libp2p/go-libp2p/core/crypto"
	pb "github.com/libp2p/go-libp2p/core/crypto/pb"
)

var ctx = context.Background()

func timeDur(ns int) time.Duration { return time.Duration(ns) }

// ---- block store used through the public LogOptions.IO / FetchOptions.IO hooks ----

const (
	faultNone   = 0
	faultAbsent = 1 // Read returns an error
	faultDecode = 2 // Read succeeds, DecodeRawEntry returns an error
	faultHung   = 3 // Read blocks until the context is done (only used with a timeout), then fails
	// malformed blocks: the stored entry goes through the repository's own jsonable conversion with a field missing
	faultNoClock = 4 // block without the clock field
	faultNoSigs  = 5 // identity without the signatures field
	faultBadHex  = 6 // key field that is not hex
)

type memAPI struct {
	coreiface.CoreAPI
	entries    map[string]iface.IPFSLogEntry
	logs       map[string]*iface.JSONLog
	order      []string       // hashes in write order (write journal)
	reads      []string       // hashes requested through Read (request journal)
	fault      map[string]int // per-block fault kind
	pin        *memPin
	absentErr  error // the error an absent block fails with (default: a plain "not found")
	failWrites int   // the n-th write (1-based) fails; 0 = never
	writes     int
	onWrite    func(api *memAPI, hash string, obj interface{})
	gated      bool // reads go through vx.Gate (schedule replay of fetch completion orders)
	dag        *memDag
}

func newMemAPI() *memAPI {
	return &memAPI{entries: map[string]iface.IPFSLogEntry{}, logs: map[string]*iface.JSONLog{}, fault: map[string]int{}}
}

type memNode struct {
	format.Node
	c cid.Cid
}

// atomIO implements iface.IO (and IOPreSign) over memAPI; content identifiers are fresh atoms,
// i.e. collision-free by construction, with a symbolic relative order.
type atomIO struct{ api *memAPI }

func (io *atomIO) Write(_ context.Context, _ coreiface.CoreAPI, obj interface{}, _ *iface.WriteOpts) (c cid.Cid, err error) {
	if io.api.gated {
		if e, ok := obj.(iface.IPFSLogEntry); ok {
			vx.GateSeq("write:" + string(e.GetPayload()))
		} else {
			vx.GateSeq("write:manifest")
		}
	}
	// a block store is safe for concurrent use (like the DAG service behind the real codec): one atomic step
	vx.Atomic(func() { c, err = io.write(obj) })
	return c, err
}

func (io *atomIO) write(obj interface{}) (cid.Cid, error) {
	api := io.api
	api.writes++
	if api.failWrites != 0 && api.writes == api.failWrites {
		return cid.Undef, errors.New("write failed")
	}
	c := vx.FreshCid()
	if api.onWrite != nil {
		api.onWrite(api, c.String(), obj)
	}
	switch o := obj.(type) {
	case iface.IPFSLogEntry:
		cp := o.Copy()
		cp.SetHash(c)
		api.entries[c.String()] = cp
	case *iface.JSONLog:
		api.logs[c.String()] = &iface.JSONLog{ID: o.ID, Heads: append([]cid.Cid{}, o.Heads...)}
	}
	api.order = append(api.order, c.String())
	return c, nil
}

func (io *atomIO) Read(rctx context.Context, _ coreiface.CoreAPI, c cid.Cid) (format.Node, error) {
	api := io.api
	vx.Atomic(func() { api.reads = append(api.reads, c.String()) })
	if api.fault[c.String()] == faultAbsent {
		if api.gated {
			vx.Gate(vx.CidKey(c))
		}
		if api.absentErr != nil {
			return nil, api.absentErr
		}
		return nil, errors.New("block not found")
	}
	if api.fault[c.String()] == faultHung {
		<-rctx.Done()
		return nil, rctx.Err()
	}
	if api.gated {
		vx.Gate(vx.CidKey(c))
	}
	if _, ok := api.entries[c.String()]; ok {
		return &memNode{c: c}, nil
	}
	if _, ok := api.logs[c.String()]; ok {
		return &memNode{c: c}, nil
	}
	return nil, errors.New("block not found")
}

func (io *atomIO) DecodeRawEntry(node format.Node, hash cid.Cid, p idp.Interface) (iface.IPFSLogEntry, error) {
	k := node.(*memNode).c.String()
	if io.api.fault[k] == faultDecode {
		return nil, errors.New("undecodable block")
	}
	e, ok := io.api.entries[k]
	if !ok {
		return nil, errors.New("not an entry")
	}
	if f := io.api.fault[k]; f >= faultNoClock {
		j, ok := jsonable.ToJsonableEntry(e).(*jsonable.EntryV2)
		if !ok {
			return nil, errors.New("not a v2 entry")
		}
		switch f {
		case faultNoClock:
			j.Clock = nil
		case faultNoSigs:
			if j.Identity != nil {
				j.Identity.Signatures = nil
			}
		case faultBadHex:
			j.Key = "zz"
		}
		out := &entry.Entry{}
		if err := j.ToPlain(out, p, func() iface.IPFSLogLamportClock { return &entry.LamportClock{} }); err != nil {
			return nil, err
		}
		out.SetHash(hash)
		return out, nil
	}
	cp := e.Copy()
	cp.SetHash(hash)
	return cp, nil
}

func (io *atomIO) DecodeRawJSONLog(node format.Node) (*iface.JSONLog, error) {
	l, ok := io.api.logs[node.(*memNode).c.String()]
	if !ok {
		return nil, errors.New("not a manifest")
	}
	return &iface.JSONLog{ID: l.ID, Heads: append([]cid.Cid{}, l.Heads...)}, nil
}

// PreSign: identity transformation (the default codec without link key does the same).
func (io *atomIO) PreSign(e iface.IPFSLogEntry) (iface.IPFSLogEntry, error) { return e, nil }

// ---- mock identity provider (public idp.Interface): signatures are irrelevant to the CRDT harnesses ----

type mockProvider struct{}

type mockPub struct{ raw []byte }

func (k *mockPub) Verify(data []byte, sig []byte) (bool, error) { return len(sig) == 3, nil }
func (k *mockPub) Raw() ([]byte, error)                         { return k.raw, nil }
func (k *mockPub) Type() pb.KeyType                             { return pb.KeyType_Secp256k1 }
func (k *mockPub) Equals(o crypto.Key) bool                     { return false }

func (mockProvider) GetID(context.Context, *idp.CreateIdentityOptions) (string, error) {
	return "id", nil
}
func (mockProvider) SignIdentity(context.Context, []byte, string) ([]byte, error) {
	return []byte("sig"), nil
}
func (mockProvider) GetType() string                    { return "mock" }
func (mockProvider) VerifyIdentity(*idp.Identity) error { return nil }
func (mockProvider) Sign(context.Context, *idp.Identity, []byte) ([]byte, error) {
	return []byte("sig"), nil
}
func (mockProvider) UnmarshalPublicKey(data []byte) (crypto.PubKey, error) {
	return &mockPub{raw: data}, nil
}

func mockIdentity(name string, pub []byte) *idp.Identity {
	return &idp.Identity{ID: name, PublicKey: pub, Type: "mock", Provider: mockProvider{},
		Signatures: &idp.IdentitySignature{ID: []byte("i"), PublicKey: []byte("p")}}
}

// writer identities: W distinct public keys (single concrete bytes 1..W)
func mockIdentities(w int) []*idp.Identity {
	out := make([]*idp.Identity, w)
	for i := range out {
		out[i] = mockIdentity(string(rune('A'+i)), []byte{byte(i + 1)})
	}
	return out
}

// denyWriter: access controller refusing entries of one identity id (public accesscontroller.Interface).
type denyWriter struct{ id string }

func (d *denyWriter) CanAppend(e accesscontroller.LogEntry, _ idp.Interface, _ accesscontroller.CanAppendAdditionalContext) error {
	if e.GetIdentity() != nil && e.GetIdentity().ID == d.id {
		return errors.New("denied")
	}
	return nil
}

// denyPayload refuses the entry with one given payload (whoever signed it), otherwise defers to inner.
type denyPayload struct {
	p     []byte
	inner accesscontroller.Interface
}

func (d *denyPayload) CanAppend(e accesscontroller.LogEntry, ip idp.Interface, c accesscontroller.CanAppendAdditionalContext) error {
	if bytes.Equal(e.GetPayload(), d.p) {
		return errors.New("denied payload")
	}
	if d.inner != nil {
		return d.inner.CanAppend(e, ip, c)
	}
	return nil
}

// ---- orderings ----

const (
	sortHash = 0
	sortLWW  = 1
	sortFWW  = 2
	sortCmp  = 4 // sorting.Compare as the log's ordering: equal clocks compare as 0, which the log's NoZeroes wrapper reports as an error
	sortDist = 3 // a caller-supplied comparator that reports distances: only the sign of an EntrySortFn result is meaningful
)

// distanceOrder orders like last-write-wins but returns magnitudes (clock time difference, then twice the
// byte comparison of the clock ids), as a hand-written comparator typically does.
func distanceOrder(a, b iface.IPFSLogEntry) (int, error) {
	ta, tb := a.GetClock().GetTime(), b.GetClock().GetTime()
	if ta != tb {
		return ta - tb, nil
	}
	return 2 * bytes.Compare(a.GetClock().GetID(), b.GetClock().GetID()), nil
}

func pickSort(k int) iface.EntrySortFn {
	switch k {
	case sortLWW:
		return sorting.LastWriteWins
	case sortFWW:
		return sorting.FirstWriteWins
	case sortDist:
		return distanceOrder
	case sortCmp:
		return sorting.Compare
	}
	return sorting.SortByEntryHash
}

func newLogOpt(api *memAPI, id *idp.Identity, o *ipfslog.LogOptions) *ipfslog.IPFSLog {
	if o.ID == "" {
		o.ID = "X"
	}
	if o.IO == nil {
		o.IO = &atomIO{api: api}
	}
	l, err := ipfslog.NewLog(api, id, o)
	if err != nil {
		panic(err)
	}
	return l
}

func newLog(api *memAPI, id *idp.Identity, sortFn iface.EntrySortFn) *ipfslog.IPFSLog {
	return newLogOpt(api, id, &ipfslog.LogOptions{SortFn: sortFn})
}

// ---- reference oracles (short, obviously correct; executed symbolically in the same path) ----

func hstr(e iface.IPFSLogEntry) string { return e.GetHash().String() }

func refHeads(es []iface.IPFSLogEntry) map[string]bool {
	ref := map[string]bool{}
	for _, e := range es {
		for _, n := range e.GetNext() {
			ref[n.String()] = true
		}
	}
	out := map[string]bool{}
	for _, e := range es {
		if !ref[hstr(e)] {
			out[hstr(e)] = true
		}
	}
	return out
}

func hashSet(es []iface.IPFSLogEntry) map[string]bool {
	out := map[string]bool{}
	for _, e := range es {
		out[hstr(e)] = true
	}
	return out
}

func cidSet(cs []cid.Cid) map[string]bool {
	out := map[string]bool{}
	for _, c := range cs {
		out[c.String()] = true
	}
	return out
}

func sameSet(a, b map[string]bool) bool {
	if len(a) != len(b) {
		return false
	}
	for k := range a {
		if !b[k] {
			return false
		}
	}
	return true
}

func subset(a, b map[string]bool) bool {
	for k := range a {
		if !b[k] {
			return false
		}
	}
	return true
}

func union(a, b map[string]bool) map[string]bool {
	out := map[string]bool{}
	for k := range a {
		out[k] = true
	}
	for k := range b {
		out[k] = true
	}
	return out
}

func sameSeq(a, b []iface.IPFSLogEntry) bool {
	if len(a) != len(b) {
		return false
	}
	for i := range a {
		if hstr(a[i]) != hstr(b[i]) {
			return false
		}
	}
	return true
}

func isSubsequence(old, new []iface.IPFSLogEntry) bool {
	j := 0
	for _, e := range new {
		if j < len(old) && hstr(old[j]) == hstr(e) {
			j++
		}
	}
	return j == len(old)
}

func index(es []iface.IPFSLogEntry) map[string]iface.IPFSLogEntry {
	out := map[string]iface.IPFSLogEntry{}
	for _, e := range es {
		out[hstr(e)] = e
	}
	return out
}

// refPast: predecessor closure (along next) of the given hashes inside es, including the roots.
func refPast(roots []string, es []iface.IPFSLogEntry) map[string]bool {
	ix := index(es)
	out := map[string]bool{}
	stack := append([]string{}, roots...)
	for len(stack) > 0 {
		h := stack[len(stack)-1]
		stack = stack[:len(stack)-1]
		if out[h] {
			continue
		}
		e, ok := ix[h]
		if !ok {
			continue
		}
		out[h] = true
		for _, n := range e.GetNext() {
			stack = append(stack, n.String())
		}
	}
	return out
}

// refSorted: selection sort with cmp (ascending); only meaningful when cmp is a strict total order on es.
// The comparator verdicts may be symbolic; selection by a symbolic minimum forks per outcome.
func refSorted(es []iface.IPFSLogEntry, cmp iface.EntrySortFn) []iface.IPFSLogEntry {
	rest := append([]iface.IPFSLogEntry{}, es...)
	var out []iface.IPFSLogEntry
	for len(rest) > 0 {
		m := 0
		for i := 1; i < len(rest); i++ {
			if r, _ := cmp(rest[i], rest[m]); r < 0 {
				m = i
			}
		}
		out = append(out, rest[m])
		rest = append(rest[:m], rest[m+1:]...)
	}
	return out
}

func payloads(es []iface.IPFSLogEntry) string {
	s := ""
	for i, e := range es {
		if i > 0 {
			s += ","
		}
		s += string(e.GetPayload())
	}
	return s
}

var _ = entry.NewLamportClock

// ---- DAG service of the in-memory store: what the real codecs (io/cbor, io/pb) write to and read from ----

type memDag struct {
	api   *memAPI
	nodes map[string]format.Node
	alias map[string]string // another form of an identifier (CIDv1 of the same multihash) -> the form the block is stored under
	// fault injection for block writes
	failAdds map[int]bool // the n-th Add (1-based) fails
	adds     int
	onAdd    func(d *memDag, nd format.Node)
	journal  []string // identifiers in write order
	removed  []string // identifiers removed through Remove
	// slow: Add takes time: it is entered (and may be refused) first and stores the block in a second step, so
	// that other writers can run while a write is in flight
	slow bool
	mu   sync.Mutex
}

// memPin: a pin service that can be made to fail (the n-th Add, 1-based); pinned identifiers are recorded.
type memPin struct {
	coreiface.PinAPI
	api      *memAPI
	adds     int
	failAdds map[int]bool
	pinned   []string
}

func (p *memPin) Add(_ context.Context, pa path.Path, _ ...options.PinAddOption) error {
	p.adds++
	if p.failAdds[p.adds] {
		return errors.New("pin: failed")
	}
	p.pinned = append(p.pinned, pa.String())
	return nil
}

func (api *memAPI) Pin() coreiface.PinAPI {
	if api.pin == nil {
		api.pin = &memPin{api: api, failAdds: map[int]bool{}}
	}
	return api.pin
}

func (api *memAPI) Dag() coreiface.APIDagService {
	if api.dag == nil {
		api.dag = &memDag{api: api, nodes: map[string]format.Node{}, failAdds: map[int]bool{}}
	}
	return api.dag
}

func (d *memDag) Add(_ context.Context, nd format.Node) (err error) {
	if d.slow {
		d.mu.Lock()
		d.adds++
		fail := d.failAdds[d.adds]
		d.mu.Unlock()
		if fail {
			return errors.New("blockstore: write failed")
		}
		d.mu.Lock() // ... the write is in flight ...
		k := nd.Cid().String()
		if _, dup := d.nodes[k]; !dup {
			d.journal = append(d.journal, k)
		}
		d.nodes[k] = nd
		d.mu.Unlock()
		return nil
	}
	vx.Atomic(func() {
		d.adds++
		if d.failAdds[d.adds] {
			err = errors.New("blockstore: write failed")
			return
		}
		if d.onAdd != nil {
			d.onAdd(d, nd)
		}
		k := nd.Cid().String()
		if _, dup := d.nodes[k]; !dup {
			d.journal = append(d.journal, k)
		}
		d.nodes[k] = nd
	})
	return err
}

func (d *memDag) Get(_ context.Context, c cid.Cid) (nd format.Node, err error) {
	vx.Atomic(func() {
		key := c.String()
		if a, isAlias := d.alias[key]; isAlias {
			key = a // block stores are keyed by multihash: every form of an identifier retrieves the block
		}
		n, ok := d.nodes[key]
		if !ok {
			err = errors.New("ipld: could not find node")
			return
		}
		nd = n
	})
	return nd, err
}

func (d *memDag) AddMany(c context.Context, nds []format.Node) error {
	for _, n := range nds {
		if err := d.Add(c, n); err != nil {
			return err
		}
	}
	return nil
}
func (d *memDag) GetMany(context.Context, []cid.Cid) <-chan *format.NodeOption { return nil }
func (d *memDag) Remove(_ context.Context, c cid.Cid) error {
	vx.Atomic(func() {
		delete(d.nodes, c.String())
		d.removed = append(d.removed, c.String())
	})
	return nil
}
func (d *memDag) RemoveMany(context.Context, []cid.Cid) error { return nil }
func (d *memDag) Pinning() format.NodeAdder                   { return d }
