//go:build verif

package zz_verif

import (
	"context"
	"errors"

	ipfslog "berty.tech/go-ipfs-log"
	"berty.tech/go-ipfs-log/entry"
	idp "berty.tech/go-ipfs-log/identityprovider"
	"berty.tech/go-ipfs-log/iface"
	"berty.tech/go-ipfs-log/internal/vx"
	"github.com/ipfs/go-cid"
	format "github.com/ipfs/go-ipld-format"
	coreiface "github.com/ipfs/kubo/core/coreiface"
	"github.com/libp2p/go-libp2p/core/crypto"
	pb "github.com/libp2p/go-libp2p/core/crypto/pb"
)

// ---- block store ----

type memAPI struct {
	coreiface.CoreAPI
	entries map[string]iface.IPFSLogEntry
	logs    map[string]*iface.JSONLog
}

func newMemAPI() *memAPI {
	return &memAPI{entries: map[string]iface.IPFSLogEntry{}, logs: map[string]*iface.JSONLog{}}
}

type memNode struct {
	format.Node
	c cid.Cid
}

// ---- IO handing out atom CIDs ----

type atomIO struct{ api *memAPI }

func (io *atomIO) Write(ctx context.Context, ipfs coreiface.CoreAPI, obj interface{}, opts *iface.WriteOpts) (cid.Cid, error) {
	c := vx.FreshCid()
	switch o := obj.(type) {
	case iface.IPFSLogEntry:
		cp := o.Copy()
		cp.SetHash(c)
		io.api.entries[c.String()] = cp
	case *iface.JSONLog:
		io.api.logs[c.String()] = o
	}
	return c, nil
}

func (io *atomIO) Read(ctx context.Context, ipfs coreiface.CoreAPI, c cid.Cid) (format.Node, error) {
	if _, ok := io.api.entries[c.String()]; ok {
		return &memNode{c: c}, nil
	}
	if _, ok := io.api.logs[c.String()]; ok {
		return &memNode{c: c}, nil
	}
	return nil, errors.New("not found")
}

func (io *atomIO) DecodeRawEntry(node format.Node, hash cid.Cid, p idp.Interface) (iface.IPFSLogEntry, error) {
	e, ok := io.api.entries[node.(*memNode).c.String()]
	if !ok {
		return nil, errors.New("not an entry")
	}
	cp := e.Copy()
	cp.SetHash(hash)
	return cp, nil
}

func (io *atomIO) DecodeRawJSONLog(node format.Node) (*iface.JSONLog, error) {
	l, ok := io.api.logs[node.(*memNode).c.String()]
	if !ok {
		return nil, errors.New("not a manifest")
	}
	return l, nil
}

// ---- mock identity ----

type mockProvider struct{}

type mockPub struct{ raw []byte }

func (k *mockPub) Verify(data []byte, sig []byte) (bool, error) { return len(sig) == 3, nil }
func (k *mockPub) Raw() ([]byte, error)                          { return k.raw, nil }
func (k *mockPub) Type() pb.KeyType                              { return pb.KeyType_Secp256k1 }
func (k *mockPub) Equals(o crypto.Key) bool                      { return false }

func (mockProvider) GetID(context.Context, *idp.CreateIdentityOptions) (string, error) { return "id", nil }
func (mockProvider) SignIdentity(ctx context.Context, data []byte, id string) ([]byte, error) {
	return []byte("sig"), nil
}
func (mockProvider) GetType() string                      { return "mock" }
func (mockProvider) VerifyIdentity(*idp.Identity) error   { return nil }
func (mockProvider) Sign(ctx context.Context, identity *idp.Identity, bytes []byte) ([]byte, error) {
	return []byte("sig"), nil
}
func (mockProvider) UnmarshalPublicKey(data []byte) (crypto.PubKey, error) {
	return &mockPub{raw: data}, nil
}

func mockIdentity(name string, pub []byte) *idp.Identity {
	return &idp.Identity{ID: name, PublicKey: pub, Type: "mock", Provider: mockProvider{},
		Signatures: &idp.IdentitySignature{ID: []byte("i"), PublicKey: []byte("p")}}
}

// ---- reference oracles ----

func refHeads(es []iface.IPFSLogEntry) map[string]bool {
	ref := map[string]bool{}
	for _, e := range es {
		for _, n := range e.GetNext() {
			ref[n.String()] = true
		}
	}
	out := map[string]bool{}
	for _, e := range es {
		if !ref[e.GetHash().String()] {
			out[e.GetHash().String()] = true
		}
	}
	return out
}

func hashSet(es []iface.IPFSLogEntry) map[string]bool {
	out := map[string]bool{}
	for _, e := range es {
		out[e.GetHash().String()] = true
	}
	return out
}

func sameSet(a, b map[string]bool) bool {
	if len(a) != len(b) {
		return false
	}
	for k := range a {
		if !b[k] {
			return false
		}
	}
	return true
}

var ctx = context.Background()

func newLog(api *memAPI, id *idp.Identity, sortFn iface.EntrySortFn) *ipfslog.IPFSLog {
	l, err := ipfslog.NewLog(api, id, &ipfslog.LogOptions{ID: "X", IO: &atomIO{api: api}, SortFn: sortFn})
	if err != nil {
		panic(err)
	}
	return l
}

var _ = entry.NewLamportClock

// PreSign: identity (needed because Entry.Verify dereferences a nil entry when the IO has no PreSign — finding F6b).
func (io *atomIO) PreSign(e iface.IPFSLogEntry) (iface.IPFSLogEntry, error) { return e, nil }
