//go:build verif

package zz_verif

import (
	"bytes"

	ipfslog "berty.tech/go-ipfs-log"
	"berty.tech/go-ipfs-log/enc"
	"berty.tech/go-ipfs-log/entry"
	"berty.tech/go-ipfs-log/iface"
	"berty.tech/go-ipfs-log/internal/vx"
	"berty.tech/go-ipfs-log/io/cbor"
	"github.com/ipfs/go-cid"
)

// H_C18: with a link key, a stored entry block reveals none of its predecessor / reference identifiers;
// a reader with the same key recovers them, verifies and merges the entry; a reader with another key or
// none obtains no links.
func H_C18() {
	ids, _ := realIdentities("userA", "userB")
	api := newMemAPI()
	base, err := cbor.IO(&entry.Entry{}, &entry.LamportClock{})
	vx.Assert("C18", err == nil, "the codec is available")
	kbuf := linkKeyBytes(7)
	kw, _ := enc.NewSecretbox(kbuf)
	if vx.Choice("keyBufferReused", 2) == 1 {
		// key hygiene / a scratch buffer: the caller wipes or reuses its key bytes once the box is made; the
		// codec keeps working with the key it was configured with
		for i := range kbuf {
			kbuf[i] = 9
		}
		vx.Cover("key-buffer-reused")
	}
	ko, _ := enc.NewSecretbox(linkKeyBytes(9))
	ioW := base.ApplyOptions(&cbor.Options{LinkKey: kw})
	nNext := []int{0, 1, 2, 9}[vx.Choice("nNext", 3+vx.Param("MANY", 0))] // MANY=1: also a wide merge entry (9 predecessors)
	nRefs := []int{0, 1, 2, 9}[vx.Choice("nRefs", 3+vx.Param("MANY", 0))]
	next, refs := cids(10, nNext), cids(20, nRefs)
	abstract := append(append([]cid.Cid{}, next...), refs...) // the links whose presence in the stored bytes can be looked for
	switch vx.Choice("linkShape", 4) {
	case 3: // real identifiers of older forms among the links (the first entry of a log migrated from the legacy codec)
		forms := linkForms()
		next = append(next, forms[0])
		refs = append(refs, forms[1])
		vx.Cover("legacy-link-forms")
	case 1: // the lists overlap (Append never builds such an entry; CreateEntryWithIO accepts it)
		vx.Assume(nNext > 0 && nRefs > 0)
		refs[0] = next[0]
		vx.Cover("overlapping-lists")
	case 2: // the same link twice in one list
		vx.Assume(nRefs > 1)
		refs[nRefs-1] = refs[0]
		vx.Cover("duplicate-link")
	}
	var copts *iface.CreateEntryOptions
	switch vx.Choice("createOpts", 3) {
	case 1:
		copts = &iface.CreateEntryOptions{}
	case 2:
		copts = &iface.CreateEntryOptions{PreSigned: true}
		vx.Sig("opts=PreSigned")
	}
	payload := vx.Bytes("payload", vx.Param("L", 1))
	tm := 1 + vx.Choice("time", 2)
	if vx.Choice("sibling", 2) == 1 {
		// the same codec instance first writes an entry that differs from e in its reference list only (two
		// replicas of one log state appending the same payload with different pointer counts)
		sib, err := entry.CreateEntryWithIO(ctx, api, ids[0], &entry.Entry{Payload: append([]byte{}, payload...), LogID: "X", Next: next, Refs: cids(24, 1+vx.Choice("nRefsSibling", 2)),
			Clock: entry.NewLamportClock(ids[0].PublicKey, tm)}, copts, ioW)
		vx.Assert("C18", err == nil && sib != nil, "creating an entry with a link key succeeds")
		vx.Cover("sibling-written")
	}
	e, err := entry.CreateEntryWithIO(ctx, api, ids[0], &entry.Entry{Payload: payload, LogID: "X", Next: next, Refs: refs,
		Clock: entry.NewLamportClock(ids[0].PublicKey, tm)}, copts, ioW)
	vx.Assert("C18", err == nil && e != nil, "creating an entry with a link key succeeds")
	if err != nil {
		return
	}
	if nNext == 0 && nRefs > 0 {
		vx.Sig("refs-without-next")
	} else if nNext+nRefs == 0 {
		vx.Sig("no-links")
	} else {
		vx.Sig("with-links")
	}
	// ---- what is in the store ----
	nd, err := api.Dag().Get(ctx, e.GetHash())
	vx.Assert("C18", err == nil && nd != nil, "the entry block is in the store")
	if err != nil {
		return
	}
	vx.Assert("C18", len(nd.Links()) == 0, "the stored block has no traversable links")
	raw := nd.RawData()
	for _, c := range abstract {
		vx.Assert("C18", !bytes.Contains(raw, c.Bytes()), "the stored block does not contain a predecessor/reference identifier in binary form")
		vx.Assert("C18", !bytes.Contains(raw, []byte(c.String())), "the stored block does not contain a predecessor/reference identifier as text")
	}
	vx.Cover("block-inspected")
	// ---- readers ----
	reader := vx.Choice("reader", 3)
	switch reader {
	case 0: // same key
		kr, _ := enc.NewSecretbox(linkKeyBytes(7)) // the reader's own box over the same key bytes
		ioR := base.ApplyOptions(&cbor.Options{LinkKey: kr})
		d, err := entry.FromMultihashWithIO(ctx, api, e.GetHash(), ids[0].Provider, ioR)
		vx.Assert("C18", err == nil && d != nil, "a reader with the same key can read the entry")
		if err != nil {
			return
		}
		// (identical to the lists of the entry as created: creation removes repeated links from a list)
		vx.Assert("C18", sameCids(d.GetNext(), e.GetNext()) && sameCids(d.GetRefs(), e.GetRefs()), "a reader with the same key recovers identical predecessor and reference lists")
		if len(e.GetRefs()) == len(refs) && len(e.GetNext()) == len(next) {
			vx.Assert("C18", sameCids(e.GetNext(), next) && sameCids(e.GetRefs(), refs), "the created entry carries the given lists")
		}
		if copts != nil && copts.PreSigned {
			vx.Cover("pre-signed-block") // written without its signature by design: nothing to verify or merge
			return
		}
		vx.Assert("C18", d.Verify(ids[0].Provider, ioR) == nil, "a reader with the same key can verify the entry")
		src := newLogOpt(api, ids[0], &ipfslog.LogOptions{ID: "X", IO: ioR, Entries: orderedMapOf([]ipfslog.Entry{d})})
		dst := newLogOpt(api, ids[1], &ipfslog.LogOptions{ID: "X", IO: ioR})
		_, jerr := dst.Join(src, -1)
		vx.Assert("C18", jerr == nil && dst.Len() == 1, "a reader with the same key can merge the entry")
		vx.Cover("same-key-reader")
	case 1, 2:
		ioR := base
		if reader == 1 {
			ioR = base.ApplyOptions(&cbor.Options{LinkKey: ko})
		}
		d, err := entry.FromMultihashWithIO(ctx, api, e.GetHash(), ids[0].Provider, ioR)
		if err == nil && d != nil {
			vx.Assert("C18", len(d.GetNext()) == 0 && len(d.GetRefs()) == 0, "a reader with no key or another key obtains no links")
		}
		vx.Cover("other-reader")
	}
}

var _ = register("H_C18", H_C18)

// H_C18_loaded: a log written with a link key, rebuilt with the same codec through each loader and appended to:
// the entries the rebuilt log writes hide their links like those of the original.
func H_C18_loaded() {
	ids, _ := realIdentities("userA")
	api := newMemAPI()
	base, err := cbor.IO(&entry.Entry{}, &entry.LamportClock{})
	vx.Assert("C18", err == nil, "the codec is available")
	kw, _ := enc.NewSecretbox(linkKeyBytes(7))
	ioW := base.ApplyOptions(&cbor.Options{LinkKey: kw})
	L := newLogOpt(api, ids[0], &ipfslog.LogOptions{ID: "X", IO: ioW})
	n := 1 + vx.Choice("n", vx.Param("MAXN", 2))
	for i := 0; i < n; i++ {
		_, err := L.Append(ctx, []byte{'a', byte('0' + i)}, &ipfslog.AppendOptions{PointerCount: 2})
		vx.Assert("C18", err == nil, "appending with a link key succeeds")
	}
	loader := vx.Choice("loader", 4)
	vx.Sig("loader=" + loaderNames[loader])
	lo := &ipfslog.LogOptions{ID: "X", IO: ioW}
	var N *ipfslog.IPFSLog
	switch loader {
	case ldManifest:
		m, err := L.ToMultihash(ctx)
		vx.Assert("C18", err == nil, "publishing succeeds")
		N, err = ipfslog.NewFromMultihash(ctx, api, ids[0], m, lo, &ipfslog.FetchOptions{})
		vx.Assert("C18", err == nil && N != nil, "loading with the same key succeeds")
	case ldJSON:
		N, err = ipfslog.NewFromJSON(ctx, api, ids[0], L.ToJSONLog(), lo, &entry.FetchOptions{})
		vx.Assert("C18", err == nil && N != nil, "loading with the same key succeeds")
	case ldEntries:
		N, err = ipfslog.NewFromEntry(ctx, api, ids[0], L.Heads().Slice(), lo, &entry.FetchOptions{})
		vx.Assert("C18", err == nil && N != nil, "loading with the same key succeeds")
	default:
		N, err = ipfslog.NewFromEntryHash(ctx, api, ids[0], L.Heads().Slice()[0].GetHash(), lo, &ipfslog.FetchOptions{})
		vx.Assert("C18", err == nil && N != nil, "loading with the same key succeeds")
	}
	if N == nil {
		return
	}
	vx.Assert("C18", N.Len() == n, "a reader with the same key recovers the whole log")
	e, err := N.Append(ctx, []byte("after-load"), &ipfslog.AppendOptions{PointerCount: 2})
	vx.Assert("C18", err == nil && e != nil, "appending to the loaded log succeeds")
	if err != nil {
		return
	}
	vx.Assert("C18", len(e.GetNext()) > 0, "the appended entry has predecessors")
	nd, err := api.Dag().Get(ctx, e.GetHash())
	vx.Assert("C18", err == nil && nd != nil, "the entry block is in the store")
	if err != nil {
		return
	}
	vx.Assert("C18", len(nd.Links()) == 0, "the block written by a loaded log has no traversable links")
	raw := nd.RawData()
	for _, c := range append(append([]cid.Cid{}, e.GetNext()...), e.GetRefs()...) {
		vx.Assert("C18", !bytes.Contains(raw, c.Bytes()) && !bytes.Contains(raw, []byte(c.String())), "the block written by a loaded log does not contain a predecessor/reference identifier")
	}
	vx.Cover("loaded-log-appended")
}

var _ = register("H_C18_loaded", H_C18_loaded)
