//go:build verif

package zz_verif

import (
	ipfslog "berty.tech/go-ipfs-log"
	"berty.tech/go-ipfs-log/iface"
	"berty.tech/go-ipfs-log/internal/vx"
)

// H_C04_subheads: a log opened over an entry index that holds more than its heads reach (NewLog with Entries and
// explicit Heads: a cache of the whole chain, the head an interior entry). The skip references of an entry appended
// with a large pointer count are still distinct entries of its causal past, apart from its predecessors, and at most
// logarithmic in the pointer count (seed C04-k). Only the clauses about references are claimed for such a log.
func H_C04_subheads() {
	h := newHist(histCfg{R: 1, K: 0, W: 1, sort: vx.Param("SORT", sortLWW), pcN: 1, emptyAt: -1, denyP: -1})
	writer := h.logs[0]
	n := 2 + vx.Choice("n", vx.Param("MAXN", 3))
	var chain []iface.IPFSLogEntry
	for i := 0; i < n; i++ {
		e, err := writer.Append(ctx, []byte{'s', byte('0' + i)}, nil)
		if err != nil {
			panic(err)
		}
		chain = append(chain, e)
	}
	head := chain[vx.Choice("head", n)]
	N := newLogOpt(h.api, h.ids[0], &ipfslog.LogOptions{ID: "X", IO: h.io(), SortFn: h.sortFn(), Entries: orderedMapOf(chain),
		Heads: []iface.IPFSLogEntry{head}})
	pc := []int{2, 4, 8, 16}[vx.Choice("pc", 4)]
	e, err := N.Append(ctx, []byte("t"), &ipfslog.AppendOptions{PointerCount: pc})
	vx.Assert("C04", err == nil && e != nil, "Append on a permissive log succeeds")
	if err != nil || e == nil {
		return
	}
	vx.Cover("append-over-wider-index")
	vx.Assert("C04", len(e.GetNext()) == 1 && e.GetNext()[0].String() == hstr(head), "the new entry names exactly the previous heads as predecessors")
	past := refPast([]string{hstr(head)}, chain)
	refs := e.GetRefs()
	vx.Assert("C04", subset(cidSet(refs), past), "every skip reference is an entry of the new entry's causal past")
	for _, r := range refs {
		vx.Assert("C04", r.String() != hstr(head), "skip references are distinct from the predecessors")
	}
	vx.Assert("C04", len(cidSet(refs)) == len(refs), "skip references contain no duplicate")
	vx.Assert("C04", len(refs) <= ilog2(pc)+2, "at most log2(pointer count)+2 skip references")
}

var _ = register("H_C04_subheads", H_C04_subheads)
