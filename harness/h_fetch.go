//go:build verif

package zz_verif

import (
	ipfslog "berty.tech/go-ipfs-log"
	"berty.tech/go-ipfs-log/entry"
	"berty.tech/go-ipfs-log/iface"
	"berty.tech/go-ipfs-log/internal/vx"
)

const (
	ldManifest  = 0 // NewFromMultihash
	ldJSON      = 1 // NewFromJSON
	ldEntries   = 2 // NewFromEntry (head entries)
	ldEntryHash = 3 // NewFromEntryHash (single-headed logs)
)

var loaderNames = []string{"manifest", "json", "entries", "entryhash"}

// storedLog: replica 0 of an arbitrary bounded history, all of whose entries were written to the shared store.
func storedLog() (*hist, *ipfslog.IPFSLog) {
	vx.ExploreOff()
	h := newHist(histParams())
	h.run(nil, nil)
	return h, h.logs[0]
}

// load runs one of the four loaders; length < 0 means "no limit".
func load(h *hist, L *ipfslog.IPFSLog, loader int, length int, conc int, exclude iface.ExcludeFunc, timeoutNs int) (*ipfslog.IPFSLog, error) {
	id := h.ids[0]
	var lp *int
	if length >= 0 {
		lp = &length
	}
	lo := &ipfslog.LogOptions{ID: "X", IO: &atomIO{api: h.api}, SortFn: h.sortFn()}
	switch loader {
	case ldManifest:
		m, err := L.ToMultihash(ctx)
		vx.Assert("C09", err == nil, "publishing the manifest of a non-empty log succeeds")
		return ipfslog.NewFromMultihash(ctx, h.api, id, m, lo, &ipfslog.FetchOptions{Length: lp, Concurrency: conc, ShouldExclude: exclude, Timeout: timeDur(timeoutNs)})
	case ldJSON:
		return ipfslog.NewFromJSON(ctx, h.api, id, L.ToJSONLog(), lo, &entry.FetchOptions{Length: lp, Concurrency: conc, Timeout: timeDur(timeoutNs)})
	case ldEntries:
		return ipfslog.NewFromEntry(ctx, h.api, id, L.Heads().Slice(), lo, &entry.FetchOptions{Length: lp, Concurrency: conc, Timeout: timeDur(timeoutNs)})
	default:
		hs := L.Heads().Slice()
		return ipfslog.NewFromEntryHash(ctx, h.api, id, hs[0].GetHash(), lo, &ipfslog.FetchOptions{Length: lp, Concurrency: conc, ShouldExclude: exclude, Timeout: timeDur(timeoutNs)})
	}
}

// H_C09: a log rebuilt without a length limit from its published heads equals the original,
// for all four loaders, concurrency 1..CMAX and (explore scheduler) every block arrival order.
func H_C09() {
	h, L := storedLog()
	vx.Assume(L.Len() > 0)
	loader := vx.Choice("loader", 4)
	vx.Sig("loader=" + loaderNames[loader])
	if loader == ldEntryHash {
		vx.Assume(L.Heads().Len() == 1)
	}
	conc := 1 + vx.Choice("conc", vx.Param("CMAX", 2))
	want := entriesOf(L)
	wantHeads := hashSet(L.Heads().Slice())
	wantVals := L.Values().Slice()
	vx.ExploreOn()
	N, err := load(h, L, loader, -1, conc, nil, 0)
	vx.ExploreOff()
	vx.Assert("C09", err == nil && N != nil, "loading a fully stored log succeeds")
	if err != nil || N == nil {
		return
	}
	vx.Assert("C09", N.GetID() == L.GetID(), "the rebuilt log has the same id")
	vx.Assert("C09", sameSet(hashSet(entriesOf(N)), hashSet(want)), "the rebuilt log has the same set of entries")
	vx.Assert("C09", sameSet(hashSet(N.Heads().Slice()), wantHeads), "the rebuilt log has the same heads")
	if h.strictTotal() {
		vx.Assert("C09", sameSeq(N.Values().Slice(), wantVals), "the rebuilt log has the same linearised values")
	}
	vx.Assert("C09", len(strSet(h.api.reads)) == len(h.api.reads), "no block is requested twice")
	vx.Observe("n", N.Len())
	vx.Cover("loaded-" + loaderNames[loader])
	if len(want) > 2 {
		vx.Cover("log-of-3+")
	}
}

func strSet(ks []string) map[string]bool {
	out := map[string]bool{}
	for _, k := range ks {
		out[k] = true
	}
	return out
}

var _ = register("H_C09", H_C09)
