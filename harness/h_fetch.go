//go:build verif

package zz_verif

import (
	ipfslog "berty.tech/go-ipfs-log"
	"berty.tech/go-ipfs-log/entry"
	"berty.tech/go-ipfs-log/entry/sorting"
	"berty.tech/go-ipfs-log/iface"
	"berty.tech/go-ipfs-log/internal/vx"
	"github.com/ipfs/go-cid"
)

// H_fetch: build a small forked log on a shared store, then fetch everything from its heads
// with symbolic concurrency under all worker interleavings; the result must be exactly the log.
func H_fetch() {
	api := newMemAPI()
	idA, idB := mockIdentity("A", []byte{1}), mockIdentity("B", []byte{2})
	A := newLog(api, idA, sorting.SortByEntryHash)
	B := newLog(api, idB, sorting.SortByEntryHash)
	A.Append(ctx, []byte("a0"), nil)
	B.Append(ctx, []byte("b0"), nil)
	A.Join(B, -1)
	A.Append(ctx, []byte("a1"), &ipfslog.AppendOptions{PointerCount: 2})
	A.Append(ctx, []byte("a2"), &ipfslog.AppendOptions{PointerCount: 4})
	want := hashSet(A.GetEntries().Slice())
	var heads []cid.Cid
	for _, h := range A.Heads().Slice() {
		heads = append(heads, h.GetHash())
	}
	conc := 1 + vx.Choice("conc", 2)
	got := entry.FetchAll(ctx, api, heads, &iface.FetchOptions{Concurrency: conc, IO: &atomIO{api: api}})
	vx.Assert("C09", sameSet(hashSet(got), want), "unbounded fetch returns exactly the log")
	vx.Assert("C11", len(got) == len(want), "no entry returned twice")
	vx.Cover("fetch-done")
}

var _ = register("H_fetch", H_fetch)
