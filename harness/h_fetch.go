//go:build verif

package zz_verif

import (
	"context"
	"fmt"

	ipfslog "berty.tech/go-ipfs-log"
	"berty.tech/go-ipfs-log/enc"
	"berty.tech/go-ipfs-log/entry"
	"berty.tech/go-ipfs-log/entry/sorting"
	"berty.tech/go-ipfs-log/iface"
	"berty.tech/go-ipfs-log/internal/vx"
	"berty.tech/go-ipfs-log/io/cbor"
	"github.com/ipfs/go-cid"
)

const (
	ldManifest  = 0 // NewFromMultihash
	ldJSON      = 1 // NewFromJSON
	ldEntries   = 2 // NewFromEntry (head entries)
	ldEntryHash = 3 // NewFromEntryHash (single-headed logs)
)

var loaderNames = []string{"manifest", "json", "entries", "entryhash"}

// storedLog: replica 0 of an arbitrary bounded history, all of whose entries were written to the shared store.
func storedLog() (*hist, *ipfslog.IPFSLog) {
	vx.ExploreOff()
	cfg := histParams()
	if depth := vx.Param("FORK", 0); depth > 0 {
		// a fixed wide shape instead of a symbolic history: every replica appends `depth` entries on its own, then
		// replica 0 merges them all - R entries share each clock time (ties of more than two at every level)
		cfg.K = 0
		h := newHist(cfg)
		for d := 0; d < depth; d++ {
			for r := 0; r < cfg.R; r++ {
				if _, err := h.logs[r].Append(ctx, []byte{'p', byte('0' + h.nAppend)}, nil); err != nil {
					panic(err)
				}
				h.nAppend++
			}
		}
		for r := 1; r < cfg.R; r++ {
			if _, err := h.logs[0].Join(h.logs[r], -1); err != nil {
				panic(err)
			}
		}
		if vx.Param("TOP", 0) == 1 {
			// one more entry on top of the merge: an entry with R predecessors
			if _, err := h.logs[0].Append(ctx, []byte("top"), nil); err != nil {
				panic(err)
			}
		}
		return h, h.logs[0]
	}
	h := newHist(cfg)
	h.run(nil, nil)
	return h, h.logs[0]
}

// loadOpts: the option values a caller passes to the loaders; a caller may reuse them for several loads.
type loadOpts struct {
	lo      *ipfslog.LogOptions
	fo      *ipfslog.FetchOptions
	efo     *entry.FetchOptions
	length  *int
	sources []iface.IPFSLogEntry // NewFromEntry: the supplied starting entries (default: the heads)
}

func newLoadOpts(h *hist, length int, conc int, exclude iface.ExcludeFunc, timeoutNs int) *loadOpts {
	o := &loadOpts{}
	if length >= 0 {
		n := length
		o.length = &n
	} else if vx.Param("NEGLEN", 0) == 1 {
		// "no limit" is spelt nil, -1 or any other negative length (seed C09-k)
		if k := vx.Choice("neglen", 3); k > 0 {
			n := -k
			o.length = &n
		}
	}
	o.lo = &ipfslog.LogOptions{ID: "X", IO: h.io(), SortFn: h.sortFn()}
	o.fo = &ipfslog.FetchOptions{Length: o.length, Concurrency: conc, ShouldExclude: exclude, Timeout: timeDur(timeoutNs)}
	o.efo = &entry.FetchOptions{Length: o.length, Concurrency: conc, Timeout: timeDur(timeoutNs)}
	return o
}

func (o *loadOpts) setExclude(es []iface.IPFSLogEntry) {
	o.fo.Exclude = es
	o.efo.Exclude = es
	if len(es) > 0 {
		vx.Cover("exclude-list")
	}
}

// pickSubset: any subset of es (one decision per element).
func pickSubset(name string, es []iface.IPFSLogEntry) []iface.IPFSLogEntry {
	var out []iface.IPFSLogEntry
	for _, e := range es {
		if vx.Choice(name, 2) == 1 {
			out = append(out, e)
		}
	}
	return out
}

// loadWith runs one of the four loaders with the given (possibly reused) options.
func loadWith(h *hist, L *ipfslog.IPFSLog, loader int, o *loadOpts) (*ipfslog.IPFSLog, error) {
	id := h.ids[0]
	switch loader {
	case ldManifest:
		m, err := L.ToMultihash(ctx)
		vx.Assert("C09", err == nil, "publishing the manifest of a non-empty log succeeds")
		return ipfslog.NewFromMultihash(ctx, h.api, id, m, o.lo, o.fo)
	case ldJSON:
		return ipfslog.NewFromJSON(ctx, h.api, id, L.ToJSONLog(), o.lo, o.efo)
	case ldEntries:
		src := o.sources
		if src == nil {
			src = L.Heads().Slice()
		}
		return ipfslog.NewFromEntry(ctx, h.api, id, src, o.lo, o.efo) // the caller's own slice, capacity and all
	default:
		hs := L.Heads().Slice()
		return ipfslog.NewFromEntryHash(ctx, h.api, id, hs[0].GetHash(), o.lo, o.fo)
	}
}

// load runs one of the four loaders; length < 0 means "no limit".
func load(h *hist, L *ipfslog.IPFSLog, loader int, length int, conc int, exclude iface.ExcludeFunc, timeoutNs int) (*ipfslog.IPFSLog, error) {
	return loadWith(h, L, loader, newLoadOpts(h, length, conc, exclude, timeoutNs))
}

// H_C09: a log rebuilt without a length limit from its published heads equals the original,
// for all four loaders, concurrency 1..CMAX and (explore scheduler) every block arrival order.
func H_C09() {
	h, L := storedLog()
	vx.Assume(L.Len() > 0)
	loader := vx.Choice("loader", 4)
	vx.Sig("loader=" + loaderNames[loader])
	if loader == ldEntryHash {
		vx.Assume(L.Heads().Len() == 1)
	}
	conc := 1 + vx.Choice("conc", vx.Param("CMAX", 2))
	want := entriesOf(L)
	wantHeads := hashSet(L.Heads().Slice())
	wantVals := L.Values().Slice()
	h.api.gated = true
	opts := newLoadOpts(h, -1, conc, nil, 0)
	if vx.Param("EXCL", 0) == 1 {
		// FetchOptions.Exclude: entries the caller says it already holds (any subset of the log's entries, not
		// necessarily closed under ancestry); the rebuilt log is the same
		opts.setExclude(pickSubset("excl", want))
	}
	vx.ExploreOn()
	N, err := loadWith(h, L, loader, opts)
	vx.ExploreOff()
	vx.Assert("C09", err == nil && N != nil, "loading a fully stored log succeeds")
	if err != nil || N == nil {
		return
	}

	vx.Assert("C09", N.GetID() == L.GetID(), "the rebuilt log has the same id")
	vx.Assert("C09", sameSet(hashSet(entriesOf(N)), hashSet(want)), "the rebuilt log has the same set of entries")
	vx.Assert("C09", sameSet(hashSet(N.Heads().Slice()), wantHeads), "the rebuilt log has the same heads")
	if h.strictTotal() {
		vx.Assert("C09", sameSeq(N.Values().Slice(), wantVals), "the rebuilt log has the same linearised values")
	}
	vx.Assert("C09", len(strSet(h.api.reads)) == len(h.api.reads), "no block is requested twice")
	vx.Observe("n", N.Len())
	vx.Cover("loaded-" + loaderNames[loader])
	if len(want) > 2 {
		vx.Cover("log-of-3+")
	}
	func() {
		// the same option values reused for a later state of the log: the second reconstruction equals that state
		if vx.Param("RELOAD2", 1) != 1 {
			return
		}
		if _, aerr := L.Append(ctx, []byte("later"), nil); aerr != nil {
			return
		}
		if loader == ldEntryHash && L.Heads().Len() != 1 {
			return
		}
		h.api.reads = nil
		N2, err2 := loadWith(h, L, loader, opts)
		vx.Assert("C09", err2 == nil && N2 != nil, "loading the grown log with the same option values succeeds")
		if err2 == nil && N2 != nil {
			vx.Assert("C09", sameSet(hashSet(entriesOf(N2)), hashSet(entriesOf(L))) && sameSet(hashSet(N2.Heads().Slice()), hashSet(L.Heads().Slice())),
				"a second reconstruction with reused option values equals the log's new state")
			if h.strictTotal() {
				vx.Assert("C09", sameSeq(N2.Values().Slice(), L.Values().Slice()), "a second reconstruction with reused option values has the same linearised values")
			}
			vx.Cover("reloaded-with-reused-options")
		}
	}()
}

func strSet(ks []string) map[string]bool {
	out := map[string]bool{}
	for _, k := range ks {
		out[k] = true
	}
	return out
}

var _ = register("H_C09", H_C09)

// H_C10: a length-limited load returns exactly min(max(n,k), size) entries: the k supplied starting
// entries plus the most recent others in the log's order, on every schedule and concurrency.
func H_C10() {
	h, L := storedLog()
	vx.Assume(L.Len() > 0)
	loader := vx.Choice("loader", 4)
	vx.Sig("loader=" + loaderNames[loader])
	heads := L.Heads().Slice()
	if loader == ldEntryHash {
		vx.Assume(len(heads) == 1)
	}
	all := entriesOf(L)
	size := len(all)
	n := vx.Choice("n", size+2) // case-split: 0..size+1
	conc := 1 + vx.Choice("conc", vx.Param("CMAX", 2))
	// supplied starting entries
	supplied := map[string]bool{}
	var sources []iface.IPFSLogEntry
	switch loader {
	case ldEntries:
		sources = heads
		if vx.Param("ANYSRC", 0) == 1 && vx.Choice("srcKind", 2) == 1 {
			// any non-empty set of entries of the log as starting entries: the log loaded is their causal past
			sources = nil
			for _, e := range all {
				if vx.Choice("src", 2) == 1 {
					sources = append(sources, e)
				}
			}
			vx.Assume(len(sources) > 0)
			var srcCids []cid.Cid
			for _, e := range sources {
				srcCids = append(srcCids, e.GetHash())
			}
			reach := refReach(srcCids, all, map[string]bool{})
			var sub []iface.IPFSLogEntry
			for _, e := range all {
				if reach[hstr(e)] {
					sub = append(sub, e)
				}
			}
			all = sub
			size = len(all)
			vx.Sig("sources=arbitrary")
			vx.Cover("arbitrary-sources")
		}
		supplied = hashSet(sources)
		if vx.Param("ANYSRC", 0) == 1 && vx.Choice("spareCap", 2) == 1 {
			// the caller's slice has room to spare (a window of a larger buffer): loaders must not write into it
			roomy := make([]iface.IPFSLogEntry, len(sources), len(sources)+16)
			copy(roomy, sources)
			sources = roomy
			vx.Cover("sources-with-spare-capacity")
		}
	case ldEntryHash:
		supplied = hashSet(heads[:1])
	}
	k := len(supplied)
	wantN := n
	if k > wantN {
		wantN = k
	}
	if wantN > size {
		wantN = size
	}
	// expected: supplied entries + the most recent others in the log's order
	// the loaders order by FetchOptions.SortFn, which defaults to last-write-wins whatever the log's own
	// ordering is (the log's SortFn only determines the order of the heads inside the manifest)
	sorted := refSorted(all, sorting.LastWriteWins)
	want := map[string]bool{}
	for s := range supplied {
		want[s] = true
	}
	for i := len(sorted) - 1; i >= 0 && len(want) < wantN; i-- {
		want[hstr(sorted[i])] = true
	}
	h.api.gated = true
	opts := newLoadOpts(h, n, conc, nil, 0)
	opts.sources = sources
	if vx.Param("EXCL", 0) == 1 {
		opts.setExclude(pickSubset("excl", all)) // entries the caller already holds: they count like fetched ones
	}
	srcBefore := append([]iface.IPFSLogEntry{}, sources...)
	vx.ExploreOn()
	N, err := loadWith(h, L, loader, opts)
	vx.ExploreOff()
	vx.Assert("C10", sameSeq(sources, srcBefore), "a load does not modify the slice of starting entries the caller passed")
	vx.Assert("C10", opts.length != nil && *opts.length == n, "a load does not change the limit the caller passed")

	vx.Assert("C10", err == nil && N != nil, "a length-limited load of a fully stored log succeeds")
	if err != nil || N == nil {
		return
	}
	got := entriesOf(N)
	if n == 0 {
		vx.Sig("n=0")
	} else if n < size {
		vx.Sig("0<n<size")
		vx.Cover("truncating-load")
	} else {
		vx.Sig("n>=size")
	}
	vx.Assert("C10", len(hashSet(got)) == len(got), "the loaded entries are distinct")
	vx.Assert("C10", subset(hashSet(got), hashSet(all)), "only entries of the stored log are loaded")
	vx.Assert("C10", len(got) <= wantN, "never more entries than the limit allows")
	vx.Assert("C10", len(got) == wantN, "exactly min(max(n,k),size) entries are loaded")
	vx.Assert("C10", subset(supplied, hashSet(got)), "all supplied starting entries are loaded")
	vx.Assert("C10", sameSet(hashSet(got), want), "the supplied entries plus the most recent others in the log's order are loaded")
	// the loaded log presents what it holds: every loaded entry is reachable from its heads
	nv := N.Values().Slice()
	vx.Assert("C10", len(nv) == len(got) && sameSet(hashSet(nv), hashSet(got)), "the linearised view of the loaded log contains every loaded entry")
	vx.Assert("C10", sameSet(hashSet(N.Heads().Slice()), refHeads(got)), "the heads of the loaded log are its unreferenced entries")
	vx.Observe("n", len(got))
	vx.Cover("limited-" + loaderNames[loader])
	func() {
		// the same option values (same limit variable) reused for a load with fewer supplied entries
		if vx.Param("RELOAD2", 1) != 1 || err != nil {
			return
		}
		second := []int{ldManifest, ldManifest, ldJSON, ldJSON}[loader] // k = 0 loaders
		N2, err2 := loadWith(h, L, second, opts)
		if err2 != nil || N2 == nil {
			return
		}
		w2 := n
		if full := L.Len(); w2 > full { // the second load is of the whole log
			w2 = full
		}
		vx.Assert("C10", N2.Len() == w2, "a later load with the same option values still returns exactly min(n,size) entries")
		vx.Cover("limit-reused")
	}()
}

var _ = register("H_C10", H_C10)

var faultNames = []string{"ok", "absent", "undecodable", "hung"}

// refReach: entries reachable from the heads along next and refs through retrievable, non-excluded entries.
func refReach(heads []cid.Cid, all []iface.IPFSLogEntry, bad map[string]bool) map[string]bool {
	ix := index(all)
	out := map[string]bool{}
	var stack []string
	for _, c := range heads {
		stack = append(stack, c.String())
	}
	for len(stack) > 0 {
		k := stack[len(stack)-1]
		stack = stack[:len(stack)-1]
		e, ok := ix[k]
		if !ok || bad[k] || out[k] {
			continue
		}
		out[k] = true
		for _, n := range e.GetNext() {
			stack = append(stack, n.String())
		}
		for _, r := range e.GetRefs() {
			stack = append(stack, r.String())
		}
	}
	return out
}

// H_C11: an unbounded fetch over a store with missing / failing / undecodable / hung blocks and excluded
// hashes terminates on every schedule, requests no excluded hash and no hash twice, returns no entry
// twice and returns exactly the entries reachable through retrievable, non-excluded entries.
func H_C11() {
	h, L := storedLog()
	vx.Assume(L.Len() > 0)
	all := L.Values().Slice()
	withTimeout := vx.Param("TIMEOUT", 0) == 1
	if vx.Param("CTXERR", 0) == 1 {
		// the block store gives up on a block by itself and says so with a context error of its own (a per-request
		// deadline inside the store); the load's context is alive: the block is skipped like any other failure
		h.api.absentErr = fmt.Errorf("store gave up on the block: %w", context.DeadlineExceeded)
	}
	kinds := 3
	if withTimeout {
		kinds = 4
	}
	bad := map[string]bool{}
	excluded := map[string]bool{}
	nFaults, nExcl := 0, 0
	hung := false
	nHung := 0
	for _, e := range all {
		if nFaults < vx.Param("MAXF", 2) {
			if f := vx.Choice("fault", kinds); f != faultNone {
				h.api.fault[hstr(e)] = f
				bad[hstr(e)] = true
				nFaults++
				if f == faultHung {
					hung = true
					nHung++
				}
				vx.Cover("fault-" + faultNames[f])
			}
		}
		if nExcl < vx.Param("MAXX", 1) && !bad[hstr(e)] {
			if vx.Choice("exclude", 2) == 1 {
				excluded[hstr(e)] = true
				bad[hstr(e)] = true
				nExcl++
				vx.Cover("excluded")
			}
		}
	}
	var heads []cid.Cid
	for _, e := range L.Heads().Slice() {
		heads = append(heads, e.GetHash())
	}
	conc := 1 + vx.Choice("conc", vx.Param("CMAX", 2))
	timeout := 0
	if withTimeout {
		timeout = 2000 * 1000 * 1000 // 2 s natively; a timer event in the engine
	}
	want := refReach(heads, all, bad)
	h.api.reads = nil
	h.api.gated = true
	vx.ExploreOn()
	cctx, cancel := ctx, func() {}
	callerDL := withTimeout && vx.Param("CALLERDL", 0) == 1
	if callerDL {
		// the caller's own context has a deadline too, three times later than the configured timeout
		cctx, cancel = context.WithTimeout(ctx, timeDur(3*timeout))
	}
	var progress chan iface.IPFSLogEntry
	var consumerDone chan struct{}
	slowConsumer := withTimeout && vx.Param("PROGRESS", 0) == 1
	if slowConsumer {
		// FetchOptions.ProgressChan with a consumer that is busy until after the load's deadline and then drains
		timeout = 300 * 1000 * 1000
		progress = make(chan iface.IPFSLogEntry)
		consumerDone = make(chan struct{})
		busy, stopBusy := context.WithTimeout(ctx, timeDur(3*timeout))
		go func() {
			<-busy.Done()
			stopBusy()
			for {
				select {
				case <-progress:
				case <-consumerDone:
					return
				}
			}
		}()
		vx.Cover("slow-progress-consumer")
	}
	got := entry.FetchAll(cctx, h.api, heads, &iface.FetchOptions{Concurrency: conc, IO: &atomIO{api: h.api}, Timeout: timeDur(timeout),
		ProgressChan: progress, ShouldExclude: func(c cid.Cid) bool { return excluded[c.String()] }})
	if consumerDone != nil {
		close(consumerDone)
	}
	vx.ExploreOff()
	vx.Cover("fetch-returned")
	if callerDL {
		vx.Assert("C11", cctx.Err() == nil, "the fetch returns within the configured timeout (the caller's later deadline has not expired)")
	}
	cancel()
	vx.Assert("C11", len(hashSet(got)) == len(got), "no entry is returned twice")
	reads := h.api.reads
	vx.Assert("C11", len(strSet(reads)) == len(reads), "no hash is requested twice")
	okx := true
	for _, r := range reads {
		if excluded[r] {
			okx = false
		}
	}
	vx.Assert("C11", okx, "no excluded hash is requested")
	if hung && !slowConsumer && nHung < conc {
		// fewer never-completing requests than fetch slots: a slot stays free, everything that is reachable without
		// the hung blocks is loaded before the deadline
		vx.Assert("C11", sameSet(hashSet(got), want), "exactly the entries reachable through retrievable, non-excluded entries are returned (hung blocks fewer than fetch slots)")
		vx.Cover("hung-but-a-slot-free")
	} else if hung || slowConsumer {
		// a request that never completes holds a fetch slot until the deadline: what is behind the queue at
		// that moment cannot be loaded in time by any implementation, so only soundness is required here
		vx.Assert("C11", subset(hashSet(got), want), "only entries reachable through retrievable, non-excluded entries are returned (hung block, timeout)")
	} else {
		vx.Assert("C11", sameSet(hashSet(got), want), "exactly the entries reachable through retrievable, non-excluded entries are returned")
	}
	if len(want) < len(all) && len(want) > 0 {
		vx.Cover("partial-result")
	}
	if !withTimeout {
		vx.Observe("n", len(got))
	}
}

var _ = register("H_C11", H_C11)

// H_C03_partial: a log loaded from a store in which one block is unretrievable (a reachable state: the
// loaders skip what they cannot fetch) still linearises every entry it holds exactly once. Logs written
// with skip references are included, so that entries below the hole are reached through references.
func H_C03_partial() {
	h, L := storedLog()
	vx.Assume(L.Len() > 1)
	all := L.Values().Slice()
	victim := all[vx.Choice("victim", len(all))]
	h.api.fault[hstr(victim)] = faultAbsent
	loader := 1 + vx.Choice("loader", 3) // the loaders that infer the heads from the entries: json, entries, entry hash
	vx.Sig("loader=" + loaderNames[loader])
	if loader == ldEntryHash {
		vx.Assume(L.Heads().Len() == 1)
	}
	N, err := load(h, L, loader, -1, 1+vx.Choice("conc", 2), nil, 0)
	if err != nil || N == nil {
		vx.Cover("partial-load-failed") // e.g. the only head is the missing block
		return
	}
	es := entriesOf(N)
	v := N.Values().Slice()
	vx.Assert("C03", len(v) == len(es) && sameSet(hashSet(v), hashSet(es)) && len(hashSet(v)) == len(v),
		"Values() contains each entry the log holds exactly once (log loaded with a missing block)")
	vx.Assert("C02", sameSet(hashSet(N.Heads().Slice()), refHeads(es)), "heads are the unreferenced entries (log loaded with a missing block)")
	if len(es) < len(all)-1 {
		vx.Cover("entries-behind-the-hole-lost")
	}
	if len(es) == len(all)-1 && len(es) > 0 {
		vx.Cover("hole-bridged-by-reference")
	}
	vx.Cover("partial-load")
}

var _ = register("H_C03_partial", H_C03_partial)

// H_C09_jsonretry: a reader keeps the published JSON head list and loads from it twice; during the first load
// the read of one head block fails (transiently). The second, fault-free load from the same value equals the
// original log, and the value the caller holds is not modified by a load.
func H_C09_jsonretry() {
	h, L := storedLog()
	vx.Assume(L.Len() > 0)
	jl := L.ToJSONLog()
	before := append([]cid.Cid{}, jl.Heads...)
	victim := vx.Choice("victim", len(jl.Heads))
	h.api.fault[jl.Heads[victim].String()] = faultAbsent
	opts := newLoadOpts(h, -1, 1+vx.Choice("conc", vx.Param("CMAX", 2)), nil, 0)
	N1, _ := ipfslog.NewFromJSON(ctx, h.api, h.ids[0], jl, opts.lo, opts.efo)
	_ = N1
	vx.Assert("C09", sameCids(jl.Heads, before), "a load does not modify the head list the caller passed")
	delete(h.api.fault, jl.Heads[victim].String())
	h.api.reads = nil
	N2, err := ipfslog.NewFromJSON(ctx, h.api, h.ids[0], jl, opts.lo, opts.efo)
	vx.Assert("C09", err == nil && N2 != nil, "loading a fully stored log succeeds")
	if err != nil || N2 == nil {
		return
	}
	vx.Assert("C09", sameSet(hashSet(entriesOf(N2)), hashSet(entriesOf(L))), "the rebuilt log has the same set of entries (second load from the same head list)")
	vx.Assert("C09", sameSet(hashSet(N2.Heads().Slice()), hashSet(L.Heads().Slice())), "the rebuilt log has the same heads (second load from the same head list)")
	if len(jl.Heads) > 1 {
		vx.Cover("multi-head-retry")
	}
	vx.Cover("json-retry")
}

var _ = register("H_C09_jsonretry", H_C09_jsonretry)

// H_C09_optreuse: a reader keeps ONE FetchOptions value (and, in half of the runs, one LogOptions value whose ID and
// IO it sets before each load) and rebuilds two logs that were written with different codecs - one plain, one with
// sealed links - each time naming the right codec in LogOptions.IO. Both reconstructions equal the originals,
// whichever is loaded first.
func H_C09_optreuse() {
	prop := []string{"C09", "C11", "C18"}[vx.Param("AS", 0)] // no block is faulty: "exactly the reachable entries" (C11) is "the original" (C09); one of the two logs has sealed links: the reader holding the key recovers its structure (C18)
	api := newMemAPI()
	ids, _ := realIdentities("userA")
	plain, err := cbor.IO(&entry.Entry{}, &entry.LamportClock{})
	if err != nil {
		panic(err)
	}
	k, err := enc.NewSecretbox(linkKeyBytes(5))
	if err != nil {
		panic(err)
	}
	codecs := []iface.IO{plain, plain.ApplyOptions(&cbor.Options{LinkKey: k})}
	names := []string{"P", "Q"}
	var logs [2]*ipfslog.IPFSLog
	for i := range logs {
		logs[i] = newLogOpt(api, ids[0], &ipfslog.LogOptions{ID: names[i], IO: codecs[i]})
		for j := 0; j < 2+i; j++ {
			if _, err := logs[i].Append(ctx, []byte{byte('a' + i), byte('0' + j)}, nil); err != nil {
				panic(err)
			}
		}
	}
	first := vx.Choice("first", 2)
	loader := vx.Choice("loader", 4)
	vx.Sig("loader=" + loaderNames[loader])
	shareLO := vx.Choice("shareLogOptions", 2) == 1
	efo, fo := &entry.FetchOptions{}, &ipfslog.FetchOptions{}
	lo := &ipfslog.LogOptions{}
	for step := 0; step < 2; step++ {
		i := first ^ step
		L := logs[i]
		if !shareLO {
			lo = &ipfslog.LogOptions{}
		}
		lo.ID, lo.IO = names[i], codecs[i]
		var N *ipfslog.IPFSLog
		var err error
		switch loader {
		case ldManifest:
			m, merr := L.ToMultihash(ctx)
			vx.Assert(prop, merr == nil, "publishing the manifest of a non-empty log succeeds")
			N, err = ipfslog.NewFromMultihash(ctx, api, ids[0], m, lo, fo)
		case ldJSON:
			N, err = ipfslog.NewFromJSON(ctx, api, ids[0], L.ToJSONLog(), lo, efo)
		case ldEntries:
			N, err = ipfslog.NewFromEntry(ctx, api, ids[0], L.Heads().Slice(), lo, efo)
		default:
			N, err = ipfslog.NewFromEntryHash(ctx, api, ids[0], L.Heads().Slice()[0].GetHash(), lo, fo)
		}
		vx.Assert(prop, err == nil && N != nil, "loading a fully stored log succeeds (option values kept between loads)")
		if err != nil || N == nil {
			return
		}
		vx.Assert(prop, sameSet(hashSet(entriesOf(N)), hashSet(entriesOf(L))), "the rebuilt log has the same set of entries (option values kept between loads of two logs)")
		vx.Assert(prop, sameSet(hashSet(N.Heads().Slice()), hashSet(L.Heads().Slice())), "the rebuilt log has the same heads (option values kept between loads of two logs)")
		vx.Assert(prop, sameSeq(N.Values().Slice(), L.Values().Slice()), "the rebuilt log has the same linearised values (option values kept between loads of two logs)")
	}
	vx.Cover("two-codecs-one-options-value")
}

var _ = register("H_C09_optreuse", H_C09_optreuse)
