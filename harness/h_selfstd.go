//go:build verif

package zz_verif

import (
	"bytes"
	"container/list"
	"context"
	"encoding/base64"
	"encoding/binary"
	"encoding/hex"
	"errors"
	"fmt"
	"iter"
	"log"
	"maps"
	"math"
	"math/bits"
	"os"
	"path"
	"runtime"
	"slices"
	"sort"
	"strconv"
	"strings"
	"sync"
	"sync/atomic"
	"time"
	"unicode"
	"unicode/utf8"

	"berty.tech/go-ipfs-log/internal/vx"
	"github.com/libp2p/go-libp2p/core/crypto"
)

// H_STD: engine self-check - the ordinary standard-library facilities a refactoring of the code under test
// may reach for are executed faithfully (each block is independent; ST selects one).
func H_STD() {
	x := vx.IntRange("x", 0, 100)
	switch vx.Param("ST", 0) {
	case 0: // slices / sort
		s := []int{3, 1, 2}
		slices.Sort(s)
		vx.Assert("STD", s[0] == 1 && s[2] == 3, "slices.Sort")
		vx.Assert("STD", slices.Contains(s, 2) && !slices.Contains(s, 7), "slices.Contains")
		t := []string{"b", "a", "c"}
		sort.Strings(t)
		vx.Assert("STD", t[0] == "a" && t[2] == "c", "sort.Strings")
		u := []int{x, 5, 50}
		sort.Ints(u)
		vx.Assert("STD", u[0] <= u[1] && u[1] <= u[2], "sort.Ints symbolic")
		slices.SortFunc(t, func(a, b string) int { return strings.Compare(b, a) })
		vx.Assert("STD", t[0] == "c", "slices.SortFunc")
		sort.SliceStable(u, func(i, j int) bool { return u[i] > u[j] })
		vx.Assert("STD", u[0] >= u[1] && u[1] >= u[2], "sort.SliceStable symbolic")
		i := slices.Index(t, "a")
		vx.Assert("STD", i == 2, "slices.Index")
		r := slices.Clone(s)
		slices.Reverse(r)
		vx.Assert("STD", r[0] == 3 && s[0] == 1, "slices.Clone/Reverse")
	case 1: // strings / strconv / fmt
		var b strings.Builder
		b.WriteString("ab")
		b.WriteByte('c')
		fmt.Fprintf(&b, "%d-%s", 12, "z")
		vx.Assert("STD", b.String() == "abc12-z", "strings.Builder + Fprintf: "+b.String())
		vx.Assert("STD", strings.Join([]string{"a", "b"}, ",") == "a,b", "strings.Join")
		vx.Assert("STD", strings.HasPrefix("hello", "he") && strings.HasSuffix("hello", "lo") && strings.Contains("hello", "ell"), "strings predicates")
		vx.Assert("STD", strings.TrimSpace("  a ") == "a" && strings.ToUpper("ab") == "AB" && strings.Repeat("ab", 2) == "abab", "strings transforms")
		parts := strings.Split("a/b/c", "/")
		vx.Assert("STD", len(parts) == 3 && parts[1] == "b", "strings.Split")
		vx.Assert("STD", strconv.Itoa(42) == "42" && strconv.FormatInt(-7, 10) == "-7" && strconv.FormatUint(255, 16) == "ff", "strconv format")
		n, err := strconv.Atoi("123")
		vx.Assert("STD", err == nil && n == 123, "strconv.Atoi")
		vx.Assert("STD", fmt.Sprintf("%s/%d/%v/%x", "a", 1, true, []byte{1, 171}) == "a/1/true/01ab", "fmt.Sprintf")
		vx.Assert("STD", fmt.Sprint("a", 1) == "a1", "fmt.Sprint")
		vx.Assert("STD", string(fmt.Appendf([]byte("x="), "%d,%s", 7, []byte("yz"))) == "x=7,yz" && string(fmt.Append(nil, "a", 2, 3)) == "a2 3", "fmt.Appendf / Append")
	case 2: // bytes
		var buf bytes.Buffer
		buf.WriteString("ab")
		buf.Write([]byte{'c'})
		buf.WriteByte('d')
		vx.Assert("STD", buf.String() == "abcd" && buf.Len() == 4, "bytes.Buffer")
		vx.Assert("STD", bytes.Equal(buf.Bytes(), []byte("abcd")), "bytes.Buffer.Bytes")
		vx.Assert("STD", bytes.HasPrefix([]byte("abc"), []byte("ab")) && bytes.Contains([]byte("abc"), []byte("bc")), "bytes predicates")
		j := bytes.Join([][]byte{[]byte("a"), []byte("b")}, []byte("-"))
		vx.Assert("STD", string(j) == "a-b", "bytes.Join")
		c := append([]byte(nil), "xyz"...)
		vx.Assert("STD", bytes.Compare(c, []byte("xyy")) > 0, "bytes.Compare")
	case 3: // sync / atomic / errors
		var once sync.Once
		k := 0
		once.Do(func() { k++ })
		once.Do(func() { k++ })
		vx.Assert("STD", k == 1, "sync.Once")
		var a atomic.Int64
		a.Add(2)
		a.Store(a.Load() + 1)
		vx.Assert("STD", a.Load() == 3, "atomic.Int64")
		var u uint32
		atomic.AddUint32(&u, 5)
		vx.Assert("STD", atomic.LoadUint32(&u) == 5 && atomic.CompareAndSwapUint32(&u, 5, 6) && u == 6, "atomic funcs")
		base := errors.New("base")
		w := fmt.Errorf("ctx: %w", base)
		vx.Assert("STD", errors.Is(w, base) && !errors.Is(base, w), "errors.Is")
		j := errors.Join(base, errors.New("x"))
		vx.Assert("STD", errors.Is(j, base), "errors.Join")
		var mu sync.Mutex
		mu.Lock()
		ok := mu.TryLock()
		mu.Unlock()
		vx.Assert("STD", !ok, "Mutex.TryLock")
		var wg sync.WaitGroup
		res := make([]int, 3)
		for i := 0; i < 3; i++ {
			wg.Add(1)
			go func(i int) { defer wg.Done(); res[i] = i * i }(i)
		}
		wg.Wait()
		vx.Assert("STD", res[2] == 4, "goroutines + WaitGroup")
	case 4: // maps, min/max, copy, clear, generics
		m := map[string]int{"a": 1, "b": 2}
		keys := make([]string, 0, len(m))
		for k := range m {
			keys = append(keys, k)
		}
		sort.Strings(keys)
		vx.Assert("STD", len(keys) == 2 && keys[0] == "a", "map range")
		vx.Assert("STD", min(x, 200) == x && max(3, 9) == 9, "min/max builtins")
		d := make([]int, 2)
		n := copy(d, []int{7, 8, 9})
		vx.Assert("STD", n == 2 && d[1] == 8, "copy")
		clear(m)
		vx.Assert("STD", len(m) == 0, "clear")
		vx.Assert("STD", genericMax([]int{1, 5, 2}) == 5 && genericMax([]string{"a", "c"}) == "c", "generic function")
		delete(m, "zz")
		type pair struct{ a, b int }
		ps := map[pair]bool{{1, 2}: true}
		vx.Assert("STD", ps[pair{1, 2}] && !ps[pair{2, 1}], "struct map keys")
	case 5: // core language
		defer func() {
			r := recover()
			vx.Assert("STD", r != nil, "recover sees the panic")
			vx.Cover("std-done")
		}()
		type shape interface{ area() int }
		var sh shape = sq{3}
		switch v := sh.(type) {
		case sq:
			vx.Assert("STD", v.area() == 9, "type switch / method")
		default:
			vx.Assert("STD", false, "type switch default")
		}
		f := sq{4}.area
		vx.Assert("STD", f() == 16, "method value")
		n := 0
	outer:
		for i := 0; i < 3; i++ {
			for j := 0; j < 3; j++ {
				if j == 2 {
					continue outer
				}
				if i == 2 {
					break outer
				}
				n++
			}
		}
		vx.Assert("STD", n == 4, "labelled break/continue")
		k := 0
		switch x % 2 {
		case 0:
			k = 1
			fallthrough
		case 1:
			k += 10
		}
		vx.Assert("STD", k == 10 || k == 11, "fallthrough")
		a := [3]int{1, 2, 3}
		b := a
		b[0] = 9
		vx.Assert("STD", a[0] == 1, "arrays are values")
		s1 := []int{1, 2, 3, 4}
		s2 := s1[:2]
		s2 = append(s2, 7)
		vx.Assert("STD", s1[2] == 7, "append aliasing within capacity")
		s3 := s1[:2:2]
		s3 = append(s3, 8)
		vx.Assert("STD", s1[2] == 7 && s3[2] == 8, "full slice expression")
		copy(s1[1:], s1)
		vx.Assert("STD", s1[1] == 1 && s1[2] == 2 && s1[3] == 7, "overlapping copy")
		rs := []rune("h\u00e9!")
		vx.Assert("STD", len(rs) == 3 && string(rs[1]) == "\u00e9" && len("h\u00e9!") == 4, "runes")
		cnt := 0
		for i, r := range "a\u00e9b" {
			cnt += i + int(r)
		}
		vx.Assert("STD", cnt == 0+97+1+233+3+98, "range over string")
		var u8 uint8 = 250
		u8 += 10
		var i8 int8 = 127
		i8++
		vx.Assert("STD", u8 == 4 && i8 == -128, "wrap-around")
		vx.Assert("STD", -7/2 == -3 && -7%2 == -1 && 7>>1 == 3 && -8>>1 == -4 && 1<<3 == 8, "integer division and shifts")
		vx.Assert("STD", sum(1, 2, 3) == 6 && sum() == 0 && sum([]int{4, 5}...) == 9, "variadic")
		var em emb
		em.v = 5
		vx.Assert("STD", em.get() == 5, "embedding")
		var np *sq
		_ = np.s // nil dereference panics
		vx.Assert("STD", false, "not reached")
		return
	case 6: // channels / select / context
		ch := make(chan int, 2)
		ch <- 1
		ch <- 2
		sel := 0
		select {
		case ch <- 3:
			sel = 1
		default:
			sel = 2
		}
		vx.Assert("STD", sel == 2 && len(ch) == 2 && cap(ch) == 2, "select default on a full channel")
		close(ch)
		tot := 0
		for v := range ch {
			tot += v
		}
		_, ok := <-ch
		vx.Assert("STD", tot == 3 && !ok, "range over closed channel")
		un := make(chan string)
		done := make(chan struct{})
		go func() { un <- "hi"; close(done) }()
		got := <-un
		<-done
		vx.Assert("STD", got == "hi", "unbuffered rendezvous")
		cctx, cancel := context.WithCancel(context.Background())
		vx.Assert("STD", cctx.Err() == nil, "context live")
		cancel()
		<-cctx.Done()
		vx.Assert("STD", cctx.Err() != nil && errors.Is(cctx.Err(), context.Canceled), "context cancelled")
		var mu sync.RWMutex
		shared := 0
		var wg sync.WaitGroup
		for i := 0; i < 2; i++ {
			wg.Add(1)
			go func() { defer wg.Done(); mu.Lock(); shared++; mu.Unlock() }()
		}
		wg.Wait()
		mu.RLock()
		vx.Assert("STD", shared == 2, "mutex protected counter")
		mu.RUnlock()
	case 7: // encoding helpers
		vx.Assert("STD", hex.EncodeToString([]byte{1, 255}) == "01ff", "hex encode")
		hb, err := hex.DecodeString("0aFF")
		vx.Assert("STD", err == nil && len(hb) == 2 && hb[1] == 255, "hex decode")
		vx.Assert("STD", base64.StdEncoding.EncodeToString([]byte("hi!")) == "aGkh", "base64 encode")
		hb2 := make([]byte, hex.EncodedLen(2))
		hn := hex.Encode(hb2, []byte{1, 255})
		vx.Assert("STD", hn == 4 && string(hb2) == "01ff" && string(hex.AppendEncode([]byte("x"), []byte{16})) == "x10", "hex.Encode / AppendEncode")
		bb2 := make([]byte, base64.StdEncoding.EncodedLen(3))
		base64.StdEncoding.Encode(bb2, []byte("hi!"))
		vx.Assert("STD", string(bb2) == "aGkh", "base64 Encode into a buffer")
		bb, err := base64.StdEncoding.DecodeString("aGkh")
		vx.Assert("STD", err == nil && string(bb) == "hi!", "base64 decode")
		buf := make([]byte, 8)
		binary.BigEndian.PutUint64(buf, 0x0102030405060708)
		vx.Assert("STD", buf[0] == 1 && buf[7] == 8 && binary.LittleEndian.Uint16(buf[6:]) == 0x0807, "encoding/binary")
		vx.Assert("STD", bits.OnesCount64(255) == 8 && bits.LeadingZeros32(1) == 31 && bits.TrailingZeros8(8) == 3, "math/bits")
		vx.Assert("STD", utf8.RuneCountInString("h\u00e9") == 2 && utf8.ValidString("ok") && !utf8.Valid([]byte{0xff}), "utf8")
		vx.Assert("STD", unicode.IsUpper('A') && unicode.IsDigit('7') && unicode.ToLower('Q') == 'q', "unicode")
		vx.Assert("STD", path.Clean("/a//b/./c/..") == "/a/b" && path.Join("a", "b") == "a/b" && path.Base("/x/y") == "y", "path")
		l := list.New()
		l.PushBack(1)
		l.PushFront(0)
		vx.Assert("STD", l.Len() == 2 && l.Front().Value.(int) == 0, "container/list")
	case 8: // iterators (range over func), maps / slices helpers built on them, generic containers
		m := map[string]int{"b": 2, "a": 1, "c": 3}
		keys := slices.Sorted(maps.Keys(m))
		vx.Assert("STD", len(keys) == 3 && keys[0] == "a" && keys[2] == "c", "slices.Sorted(maps.Keys)")
		tot := 0
		countTo(4)(func(_, v int) bool { // the module's language version (go 1.22) has no range-over-func statement
			if v == 3 {
				return false
			}
			tot += v
			return true
		})
		vx.Assert("STD", tot == 0+1+2, "iterator function called directly")
		vals := slices.Collect(maps.Values(m))
		slices.Sort(vals)
		vx.Assert("STD", len(vals) == 3 && vals[0] == 1, "slices.Collect(maps.Values)")
		for i := range 3 {
			tot += i
		}
		vx.Assert("STD", tot == 6, "range over int")
		st := stack[string]{}
		st.push("x")
		st.push("y")
		top, ok := st.pop()
		vx.Assert("STD", ok && top == "y" && len(st.items) == 1, "generic type")
		c2 := maps.Clone(m)
		delete(c2, "a")
		vx.Assert("STD", len(m) == 3 && len(c2) == 2, "maps.Clone")
		idx, found := slices.BinarySearch(keys, "b")
		vx.Assert("STD", found && idx == 1, "slices.BinarySearch")
		vx.Assert("STD", slices.Equal(keys, []string{"a", "b", "c"}) && slices.Max(vals) == 3, "slices.Equal/Max")
		n := 0
		slices.Chunk([]int{1, 2, 3}, 2)(func(c []int) bool { n += len(c); return true })
		vx.Assert("STD", n == 3, "slices.Chunk")
	case 9: // diagnostics and clocks a developer may sprinkle in
		log.Printf("x=%d", x)
		log.Println("hello")
		fmt.Fprintf(os.Stderr, "debug %d\n", x)
		fmt.Fprintln(os.Stdout, "debug")
		t0 := time.Now()
		d := time.Since(t0)
		vx.Assert("STD", d >= 0, "time.Since is not negative")
		_ = os.Getenv("IPFSLOG_DEBUG")
		runtime.Gosched()
		time.Sleep(time.Millisecond)
		lg := log.New(os.Stderr, "p ", 0)
		lg.Printf("y")
	case 10: // the structure of secp256k1 public key encodings (04‖X‖Y, (02|parity)‖X)
		ids, _ := realIdentities("userA", "userB")
		pk := ids[0].PublicKey
		vx.Assert("STD", len(pk) == 65 && pk[0] == 4, "uncompressed key: 65 bytes, prefix 04")
		comp := append([]byte{0x02 | pk[64]&1}, pk[1:33]...)
		k, err := crypto.UnmarshalSecp256k1PublicKey(comp)
		k0, err0 := crypto.UnmarshalSecp256k1PublicKey(pk)
		vx.Assert("STD", err == nil && err0 == nil && k.Equals(k0), "the re-compressed key is the same key")
		raw, _ := k0.Raw()
		vx.Assert("STD", len(raw) == 33 && raw[0] == comp[0] && bytes.Equal(raw[1:], pk[1:33]), "Raw() is prefix and X")
		other := append([]byte{comp[0] ^ 1}, pk[1:33]...)
		k2, err2 := crypto.UnmarshalSecp256k1PublicKey(other)
		vx.Assert("STD", err2 == nil && !k2.Equals(k0), "the other parity is another valid key")
		_, err3 := crypto.UnmarshalSecp256k1PublicKey(vx.AlterKeyY(pk))
		vx.Assert("STD", err3 != nil, "X with a wrong Y is not a key")
		full := append(append([]byte{4}, pk[1:33]...), pk[33:65]...)
		k4, err4 := crypto.UnmarshalSecp256k1PublicKey(full)
		vx.Assert("STD", err4 == nil && k4.Equals(k0), "reassembled from its halves")
		_, err5 := crypto.UnmarshalSecp256k1PublicKey(append([]byte{7}, pk[1:33]...))
		vx.Assert("STD", err5 != nil, "prefix 07 is not a key")
	case 11: // integers through float64 (math.Max as a maximum of ints is exact only below 2^53)
		a, b := vx.Int("a"), vx.Int("b")
		vx.Assume(a >= 0 && b >= 0 && a < 1<<62 && b < 1<<62)
		m := int(math.Max(float64(a), float64(b)))
		n := int(math.Min(float64(a), float64(b)))
		if a < 1<<53 && b < 1<<53 {
			vx.Assert("STD", m == max(a, b) && n == min(a, b), "math.Max / math.Min of small integers are exact")
		} else {
			vx.Assert("STD", m >= n && (m >= a || a-m < 1024) && (m >= b || b-m < 1024), "rounding moves a 62-bit integer by less than 2^10")
		}
		c9 := 1<<53 + 1 + x - x
		vx.Assert("STD", int(math.Max(float64(c9), 0)) == 1<<53, "2^53+1 rounds to 2^53")
	case 12: // make with a size that comes from outside
		n := vx.Int("n")
		vx.Assume(n < 1<<16 || n > 1<<40) // (sizes in between are legal and would really be allocated by the native run)
		panicked := false
		func() {
			defer func() {
				if recover() != nil {
					panicked = true
				}
			}()
			s := make([]string, 0, n)
			s = append(s, "a")
			vx.Assert("STD", len(s) == 1 && s[0] == "a", "a slice made with a symbolic capacity works")
		}()
		vx.Assert("STD", panicked == (n < 0 || n > 1<<44), "make panics exactly for capacities out of range")
	}
	vx.Cover("std-done")
}

func countTo(n int) iter.Seq2[int, int] {
	return func(yield func(int, int) bool) {
		for i := 0; i < n; i++ {
			if !yield(i, i) {
				return
			}
		}
	}
}

type stack[T any] struct{ items []T }

func (s *stack[T]) push(v T) { s.items = append(s.items, v) }
func (s *stack[T]) pop() (T, bool) {
	var zero T
	if len(s.items) == 0 {
		return zero, false
	}
	v := s.items[len(s.items)-1]
	s.items = s.items[:len(s.items)-1]
	return v, true
}

type sq struct{ s int }

func (q sq) area() int { return q.s * q.s }

type inner struct{ v int }

func (i *inner) get() int { return i.v }

type emb struct{ inner }

func sum(xs ...int) int {
	t := 0
	for _, x := range xs {
		t += x
	}
	return t
}

func genericMax[T int | string](xs []T) T {
	m := xs[0]
	for _, v := range xs[1:] {
		if v > m {
			m = v
		}
	}
	return m
}

var _ = register("H_STD", H_STD)
