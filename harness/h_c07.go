//go:build verif

package zz_verif

import (
	"encoding/hex"
	"encoding/json"
	"unicode/utf8"

	"berty.tech/go-ipfs-log/entry"
	"berty.tech/go-ipfs-log/iface"
	"berty.tech/go-ipfs-log/internal/vx"
	"github.com/ipfs/go-cid"
	"github.com/multiformats/go-multibase"
	mh "github.com/multiformats/go-multihash"
)

// H_smoke_ident: identity creation and one signed entry through the real provider (engine bring-up).
func H_smoke_ident() {
	ids, _ := realIdentities("userA", "userB")
	api := newMemAPI()
	e, err := entry.CreateEntryWithIO(ctx, api, ids[0], &entry.Entry{Payload: []byte("hi"), LogID: "X"}, nil, &atomIO{api: api})
	vx.Assert("SMOKE", err == nil, "create ok")
	vx.Assert("SMOKE", e.Verify(ids[0].Provider, &atomIO{api: api}) == nil, "verifies")
	e2 := e.Copy()
	e2.SetPayload([]byte("ho"))
	vx.Assert("SMOKE", e2.Verify(ids[0].Provider, &atomIO{api: api}) != nil, "tampered payload rejected")
	vx.Cover("smoke-ident")
}

func cids(base, n int) []cid.Cid {
	out := []cid.Cid{}
	for i := 0; i < n; i++ {
		out = append(out, vx.Cid(base+i))
	}
	return out
}

// jsonRunes: the rune sequence encoding/json renders for a string (every byte that is not part of a valid
// UTF-8 sequence becomes U+FFFD). Written with explicit ranges (RFC 3629 table) instead of utf8.DecodeRune so
// that the symbolic execution needs no table lookups; natively it agrees with utf8.DecodeRune (see selfCheckRunes).
func jsonRunes(b []byte) []rune {
	in := func(x, lo, hi byte) bool { return lo <= x && x <= hi }
	var out []rune
	for i := 0; i < len(b); {
		b0 := b[i]
		switch {
		case b0 < 0x80:
			out = append(out, rune(b0))
			i++
			continue
		case in(b0, 0xC2, 0xDF) && i+1 < len(b) && in(b[i+1], 0x80, 0xBF):
			out = append(out, rune(b0&0x1F)<<6|rune(b[i+1]&0x3F))
			i += 2
			continue
		case i+2 < len(b) && in(b[i+2], 0x80, 0xBF) &&
			((b0 == 0xE0 && in(b[i+1], 0xA0, 0xBF)) || ((in(b0, 0xE1, 0xEC) || in(b0, 0xEE, 0xEF)) && in(b[i+1], 0x80, 0xBF)) || (b0 == 0xED && in(b[i+1], 0x80, 0x9F))):
			out = append(out, rune(b0&0x0F)<<12|rune(b[i+1]&0x3F)<<6|rune(b[i+2]&0x3F))
			i += 3
			continue
		case i+3 < len(b) && in(b[i+2], 0x80, 0xBF) && in(b[i+3], 0x80, 0xBF) &&
			((b0 == 0xF0 && in(b[i+1], 0x90, 0xBF)) || (in(b0, 0xF1, 0xF3) && in(b[i+1], 0x80, 0xBF)) || (b0 == 0xF4 && in(b[i+1], 0x80, 0x8F))):
			out = append(out, rune(b0&0x07)<<18|rune(b[i+1]&0x3F)<<12|rune(b[i+2]&0x3F)<<6|rune(b[i+3]&0x3F))
			i += 4
			continue
		}
		out = append(out, utf8.RuneError)
		i++
	}
	return out
}

func sameRunes(a, b []rune) bool {
	if len(a) != len(b) {
		return false
	}
	eq := true
	for i := range a {
		eq = vx.And(eq, a[i] == b[i])
	}
	return eq
}

func bytesDiffer(a, b []byte) bool {
	if len(a) != len(b) {
		return true
	}
	d := false
	for i := range a {
		d = vx.Or(d, a[i] != b[i])
	}
	return d
}

var tamperNames = []string{"payload-byte", "payload-length", "log-id", "next-replace", "next-remove", "next-swap", "next-add",
	"refs-replace", "refs-remove", "refs-swap", "refs-add", "version", "clock-id-bytes", "clock-id-length", "clock-time", "key", "sig", "clock-id-emptied", "key-y-coordinate", "key-overwritten-in-place"}

// refSigningBytes: the documented signing bytes of an entry (ipfs-log: JSON of hash=null, id, payload, next, refs,
// v, clock{id,time}), built independently of the code under test.
func refSigningBytes(e iface.IPFSLogEntry) []byte {
	enc, err := multibase.NewEncoder(multibase.Base58BTC)
	if err != nil {
		panic(err)
	}
	nexts := make([]string, len(e.GetNext()))
	for i, c := range e.GetNext() {
		nexts[i] = c.Encode(enc)
	}
	refs := make([]string, len(e.GetRefs()))
	for i, c := range e.GetRefs() {
		refs[i] = c.Encode(enc)
	}
	b, err := json.Marshal(map[string]interface{}{
		"hash": nil, "id": e.GetLogID(), "payload": string(e.GetPayload()), "next": nexts, "refs": refs, "v": e.GetV(),
		"clock": map[string]interface{}{"id": hex.EncodeToString(e.GetClock().GetID()), "time": e.GetClock().GetTime()},
	})
	if err != nil {
		panic(err)
	}
	return b
}

// H_C07: every single-field modification of a signed entry makes verification fail.
// The entry is created and signed by the repository's own path (CreateEntryWithIO, OrbitDB provider,
// keystore); payload bytes, clock id bytes, clock time and the replaced values are symbolic.
func H_C07() {
	ids, _ := realIdentities("userA", "userB")
	api := newMemAPI()
	io := &atomIO{api: api}
	L := vx.Param("L", 2)
	payload := vx.Bytes("payload", L)
	nNext := vx.Choice("nNext", vx.Param("MAXNEXT", 2)+1)
	nRefs := vx.Choice("nRefs", vx.Param("MAXREFS", 2)+1)
	clockID := vx.BytesN("clockid", 1+vx.Choice("clockidLen", vx.Param("IDLEN", 2)))
	if vx.Param("CLOCKKEY", 0) == 1 {
		clockID = ids[0].PublicKey // what Append does: the clock id is the writer's public key
	}
	t := vx.Int("time")
	logID := []string{"X", "Y"}[vx.Choice("logid", 2)]
	e, err := entry.CreateEntryWithIO(ctx, api, ids[0], &entry.Entry{Payload: payload, LogID: logID,
		Next: cids(10, nNext), Refs: cids(20, nRefs), Clock: entry.NewLamportClock(clockID, t)}, nil, io)
	vx.Assert("C07", err == nil && e != nil, "creating a signed entry succeeds")
	if err != nil {
		return
	}
	if ver := vx.Param("VER", 2); ver < 2 {
		// an entry of an earlier format version, signed by hand over the documented signing bytes (what an older
		// peer produced): the same fields are covered by its signature
		y := e.Copy()
		y.SetHash(e.GetHash())
		y.SetV(uint64(ver))
		sig, err := ids[0].Provider.Sign(ctx, ids[0], refSigningBytes(y))
		vx.Assert("C07", err == nil, "signing succeeds")
		y.SetSig(sig)
		e = y
		vx.Cover("older-version-entry")
	}
	vx.Assert("C07", e.Verify(ids[0].Provider, io) == nil, "the untampered entry verifies")
	k := vx.Choice("tamper", len(tamperNames))
	if vx.Param("CLOCKKEY", 0) == 1 {
		vx.Assume(k != 12) // byte-wise replacement inside the key is not expressible (the key is one opaque value)
	}
	vx.Sig("tamper=" + tamperNames[k])
	x := e.Copy()
	x.SetHash(e.GetHash()) // the attacker keeps hash, key and signature
	switch k {
	case 0: // one payload byte changed
		vx.Assume(len(payload) > 0)
		p2 := append([]byte{}, payload...)
		i := vx.Choice("pos", len(payload))
		p2[i] = vx.Byte("newbyte")
		vx.Assume(p2[i] != payload[i])
		x.SetPayload(p2)
		if sameRunes(jsonRunes(payload), jsonRunes(p2)) {
			vx.Sig("payloads-equal-after-utf8-coercion")
		}
	case 1: // payload length changed (byte appended or last byte dropped)
		if vx.Choice("grow", 2) == 1 {
			x.SetPayload(append(append([]byte{}, payload...), vx.Byte("extra")))
		} else {
			vx.Assume(len(payload) > 0)
			x.SetPayload(append([]byte{}, payload[:len(payload)-1]...))
		}
	case 2:
		x.SetLogID(map[string]string{"X": "Y", "Y": "X"}[logID])
	case 3:
		vx.Assume(nNext > 0)
		n2 := append([]cid.Cid{}, e.GetNext()...)
		n2[vx.Choice("pos", nNext)] = vx.Cid(50)
		x.SetNext(n2)
	case 4:
		vx.Assume(nNext > 0)
		i := vx.Choice("pos", nNext)
		n2 := append([]cid.Cid{}, e.GetNext()[:i]...)
		x.SetNext(append(n2, e.GetNext()[i+1:]...))
	case 5:
		vx.Assume(nNext > 1)
		x.SetNext([]cid.Cid{e.GetNext()[1], e.GetNext()[0]})
	case 6:
		x.SetNext(append(append([]cid.Cid{}, e.GetNext()...), vx.Cid(51)))
	case 7:
		vx.Assume(nRefs > 0)
		r2 := append([]cid.Cid{}, e.GetRefs()...)
		r2[vx.Choice("pos", nRefs)] = vx.Cid(52)
		x.SetRefs(r2)
	case 8:
		vx.Assume(nRefs > 0)
		i := vx.Choice("pos", nRefs)
		r2 := append([]cid.Cid{}, e.GetRefs()[:i]...)
		x.SetRefs(append(r2, e.GetRefs()[i+1:]...))
	case 9:
		vx.Assume(nRefs > 1)
		x.SetRefs([]cid.Cid{e.GetRefs()[1], e.GetRefs()[0]})
	case 10:
		x.SetRefs(append(append([]cid.Cid{}, e.GetRefs()...), vx.Cid(53)))
	case 11:
		v := vx.Uint64("v")
		vx.Assume(v != e.GetV())
		x.SetV(v)
	case 12:
		id2 := vx.BytesN("clockid2", len(clockID))
		vx.Assume(bytesDiffer(id2, clockID))
		x.SetClock(entry.NewLamportClock(id2, t))
	case 13:
		x.SetClock(entry.NewLamportClock(append(append([]byte{}, clockID...), vx.Byte("idextra")), t))
	case 14:
		t2 := vx.Int("time2")
		vx.Assume(t2 != t)
		x.SetClock(entry.NewLamportClock(clockID, t2))
	case 15: // another identity's key
		x.SetKey(ids[1].PublicKey)
	case 17: // the clock id removed altogether
		if vx.Choice("emptyForm", 2) == 0 {
			x.SetClock(entry.NewLamportClock(nil, t))
		} else {
			x.SetClock(entry.NewLamportClock([]byte{}, t))
		}
	case 18: // the key's Y coordinate altered, X and the parity of Y kept: not a point of the curve any more
		x.SetKey(vx.AlterKeyY(e.GetKey()))
	case 19: // the key bytes overwritten in place with another identity's key (the copy shares them with the entry
		// that the same provider verified a moment ago)
		kb := x.GetKey()
		vx.Assume(len(kb) == len(ids[1].PublicKey))
		copy(kb, ids[1].PublicKey)
	case 16: // the signature of another (valid) entry
		o, err := entry.CreateEntryWithIO(ctx, api, ids[0], &entry.Entry{Payload: []byte("other"), LogID: logID, Clock: entry.NewLamportClock(clockID, t)}, nil, io)
		vx.Assume(err == nil)
		x.SetSig(o.GetSig())
	}
	vx.Cover("tampered-" + tamperNames[k])
	vx.Assert("C07", x.Verify(ids[0].Provider, io) != nil, "a tampered entry does not verify")
}

var _ = register("H_smoke_ident", H_smoke_ident)
var _ = register("H_C07", H_C07)
var _ iface.IPFSLogEntry

// H_C07_legacy: entries of every format version whose predecessor or reference is a real identifier (not an
// abstract one) in one of its forms - CIDv0, CIDv1/dag-pb, CIDv1/dag-cbor, CIDv1/raw of one digest: the form is
// part of the identifier (the log's indexes tell the forms apart), so replacing a signed link by another form of
// the same digest, or by an identifier of another digest, must make verification fail.
func H_C07_legacy() {
	ids, _ := realIdentities("userA")
	api := newMemAPI()
	io := &atomIO{api: api}
	forms := linkForms()
	ver := vx.Choice("ver", 3)
	orig := vx.Choice("orig", 4)
	inRefs := vx.Choice("inRefs", 2) == 1
	y := &entry.Entry{LogID: "X", Payload: []byte("p"), V: uint64(ver), Clock: entry.NewLamportClock(ids[0].PublicKey, 3),
		Key: ids[0].PublicKey, Identity: ids[0].Filtered(), Hash: vx.Cid(1), Next: []cid.Cid{}, Refs: []cid.Cid{}}
	if inRefs {
		y.Refs = []cid.Cid{forms[orig]}
	} else {
		y.Next = []cid.Cid{forms[orig]}
	}
	sig, err := ids[0].Provider.Sign(ctx, ids[0], refSigningBytes(y))
	vx.Assert("C07", err == nil, "signing succeeds")
	y.SetSig(sig)
	vx.Assert("C07", y.Verify(ids[0].Provider, io) == nil, "an entry signed over the documented signing bytes verifies (real link identifiers)")
	repl := vx.Choice("repl", len(forms))
	vx.Assume(repl != orig)
	x := y.Copy()
	x.SetHash(y.GetHash())
	if inRefs {
		x.SetRefs([]cid.Cid{forms[repl]})
	} else {
		x.SetNext([]cid.Cid{forms[repl]})
	}
	if repl < 4 {
		vx.Sig("tamper=link-form")
	} else {
		vx.Sig("tamper=link-digest")
	}
	vx.Cover("legacy-link-tampered")
	vx.Assert("C07", x.Verify(ids[0].Provider, io) != nil, "a tampered entry does not verify")
}

// linkForms: four forms of one digest and one identifier of another digest.
func linkForms() []cid.Cid {
	digest := make([]byte, 32)
	for i := range digest {
		digest[i] = byte(i*7 + 1)
	}
	mh1, err := mh.Encode(digest, mh.SHA2_256)
	if err != nil {
		panic(err)
	}
	digest[31] ^= 0x55
	mh2, _ := mh.Encode(digest, mh.SHA2_256)
	return []cid.Cid{cid.NewCidV0(mh1), cid.NewCidV1(cid.DagProtobuf, mh1), cid.NewCidV1(cid.DagCBOR, mh1), cid.NewCidV1(cid.Raw, mh1), cid.NewCidV0(mh2)}
}

var _ = register("H_C07_legacy", H_C07_legacy)
