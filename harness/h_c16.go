//go:build verif

package zz_verif

import (
	ipfslog "berty.tech/go-ipfs-log"
	"berty.tech/go-ipfs-log/iface"
	"berty.tech/go-ipfs-log/internal/vx"
	"math"
)

// H_C16: a size-bounded merge keeps exactly the newest entries of the full merge.
// A and B are the two replicas of an arbitrary history (diverged, partially overlapping, already merged,
// empty); the bound n is a symbolic integer in [0, total+2]; the twin A2 performs the unbounded merge.
func H_C16() {
	cfg := histParams()
	pre := vx.Param("PRE", 0) == 1
	if !pre {
		cfg.R = 2
	}
	h := newHist(cfg)
	h.run(nil, nil)
	A, B := h.logs[0], h.logs[1]
	var A2 *ipfslog.IPFSLog
	if pre {
		// the destination is itself the result of an earlier size-bounded merge (of the third replica): the twin
		// is forked from A before that merge and goes through the same bounded merge, then merges B unbounded
		A2 = newLogOpt(h.api, h.writerOf(0), &ipfslog.LogOptions{SortFn: h.sortFn(), IO: h.io(), Entries: A.GetEntries(), Heads: A.Heads().Slice()})
		m := vx.IntRange("presize", 0, h.logs[2].Len()+1)
		_, e1 := A.Join(h.logs[2], m)
		_, e2 := A2.Join(h.logs[2], m)
		vx.Assert("C16", e1 == nil && e2 == nil, "a size-bounded merge of a valid log succeeds")
		vx.Assert("C16", sameSeq(A.Values().Slice(), A2.Values().Slice()), "the same bounded merge on two equal logs gives equal logs")
		vx.Cover("bounded-merge-before")
	} else {
		A2 = freshObserver(h, 0)
		A2.Join(A, -1)
	}
	A2.Join(B, -1)
	full := A2.Values().Slice()
	total := len(full)
	n := vx.IntRange("size", 0, total+2)
	if vx.Param("BIGN", 0) == 1 {
		n = vx.IntRange("size", 0, math.MaxInt) // any bound at all
	}
	_, err := A.Join(B, n)
	vx.Assert("C16", err == nil, "a size-bounded merge of a valid log succeeds")
	got := A.Values().Slice()
	if vx.Param("SORT", sortHash) != sortHash && !h.strictTotal() {
		// the ordering is not a strict total order on these entries (ties): which entries are "the last n" is not
		// determined, but how many are kept is, and so is the well-formedness of the result
		all := entriesOf(A2) // the unbounded merge's entries (its linearisation is not used: the ordering is not total)
		kk := n
		if kk > len(all) {
			kk = len(all)
		}
		full = all
		vx.Assert("C16", len(got) == kk && A.Len() == kk, "the log holds exactly min(n, total) entries (ordering with ties)")
		vx.Assert("C16", subset(hashSet(got), hashSet(full)), "the kept entries are entries of the unbounded merge (ordering with ties)")
		vx.Assert("C16", sameSet(hashSet(A.Heads().Slice()), refHeads(got)), "heads are the unreferenced entries among the kept ones (ordering with ties)")
		vx.Cover("c16-ties")
		return
	}
	k := n
	if k > total {
		k = total
		vx.Cover("bound-exceeds-total")
	}
	if k < total {
		vx.Cover("truncating")
	}
	want := full[total-k:]
	vx.Assert("C16", len(got) == k && A.Len() == k, "the log holds exactly min(n, total) entries")
	vx.Assert("C16", sameSeq(got, want), "the log holds exactly the last min(n,total) entries of the unbounded merge's linearisation")
	wantHeads := refHeads(want)
	vx.Assert("C16", sameSet(hashSet(A.Heads().Slice()), wantHeads), "heads are the unreferenced entries among the kept ones")
	var ge []iface.IPFSLogEntry = A.GetEntries().Slice()
	vx.Assert("C16", sameSet(hashSet(ge), hashSet(want)), "the entry index holds exactly the kept entries")
	if n >= total {
		vx.Assert("C16", sameSeq(got, full) && sameSet(hashSet(A.Heads().Slice()), hashSet(A2.Heads().Slice())), "a bound at least as large as the merged size behaves like the unbounded merge")
	}
	vx.Cover("c16-done")
}

var _ = register("H_C16", H_C16)

// H_C16_refs: a fixed chain written with skip references, a stale replica that merged an early prefix, and a
// partial log (the result of a size-bounded merge of the whole chain): the stale replica merges the partial
// log with a bound; the oracle twin is forked from the stale replica and merges the same partial log unbounded.
func H_C16_refs() {
	h := newHist(histCfg{R: 1, K: 0, W: 1, sort: vx.Param("SORT", sortLWW), pcN: 1, emptyAt: -1, denyP: -1})
	N := vx.Param("N", 6)
	pc := []int{1, 2, 4, 8}[vx.Choice("pc", 4)]
	at := 1 + vx.Choice("staleAfter", N-1)
	writer := h.logs[0]
	stale := freshObserver(h, 0)
	for i := 0; i < N; i++ {
		_, err := writer.Append(ctx, []byte{'b', byte('1' + i)}, &ipfslog.AppendOptions{PointerCount: pc})
		if err != nil {
			panic(err)
		}
		if i+1 == at {
			if _, err := stale.Join(writer, -1); err != nil {
				panic(err)
			}
		}
	}
	partial := freshObserver(h, 0)
	m := vx.Choice("partialSize", N+1)
	if _, err := partial.Join(writer, m); err != nil {
		panic(err)
	}
	twin := newLogOpt(h.api, h.writerOf(0), &ipfslog.LogOptions{SortFn: h.sortFn(), IO: h.io(), Entries: stale.GetEntries(), Heads: stale.Heads().Slice()})
	if _, err := twin.Join(partial, -1); err != nil {
		panic(err)
	}
	full := twin.Values().Slice()
	total := len(full)
	n := vx.Choice("size", total+2)
	_, err := stale.Join(partial, n)
	vx.Assert("C16", err == nil, "a size-bounded merge of a valid log succeeds")
	k := n
	if k > total {
		k = total
	}
	want := full[total-k:]
	got := stale.Values().Slice()
	vx.Assert("C16", len(got) == k && stale.Len() == k, "the log holds exactly min(n, total) entries")
	vx.Assert("C16", sameSeq(got, want), "the log holds exactly the last min(n,total) entries of the unbounded merge's linearisation")
	vx.Assert("C16", sameSet(hashSet(stale.Heads().Slice()), refHeads(want)), "heads are the unreferenced entries among the kept ones")
	if n >= total {
		vx.Assert("C16", sameSet(hashSet(stale.Heads().Slice()), hashSet(twin.Heads().Slice())), "a bound at least as large as the merged size behaves like the unbounded merge")
	}
	if m > 0 && m < N && pc > 1 {
		vx.Cover("partial-source-with-refs")
	}
	vx.Cover("c16-refs-done")
}

var _ = register("H_C16_refs", H_C16_refs)
