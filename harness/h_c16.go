//go:build verif

package zz_verif

import (
	"berty.tech/go-ipfs-log/entry/sorting"
	"berty.tech/go-ipfs-log/internal/vx"
)

// H_C16: size-bounded merge keeps exactly the newest entries of the full merge.
func H_C16() {
	api := newMemAPI()
	idA, idB := mockIdentity("A", []byte{1}), mockIdentity("B", []byte{1})
	A := newLog(api, idA, sorting.SortByEntryHash)
	B := newLog(api, idB, sorting.SortByEntryHash)
	A2 := newLog(api, idA, sorting.SortByEntryHash)
	na := vx.Choice("na", 3)
	nb := vx.Choice("nb", 3)
	for i := 0; i < na; i++ {
		A.Append(ctx, []byte{byte(i)}, nil)
	}
	for i := 0; i < nb; i++ {
		B.Append(ctx, []byte{byte(10 + i)}, nil)
	}
	A2.Join(A, -1)
	total := na + nb
	n := vx.IntRange("size", 0, total+2)
	_, err := A.Join(B, n)
	vx.Assert("C16", err == nil, "bounded join succeeds")
	A2.Join(B, -1)
	full := A2.Values().Slice()
	k := n
	if k > len(full) {
		k = len(full)
	}
	want := full[len(full)-k:]
	got := A.Values().Slice()
	vx.Assert("C16", len(got) == len(want), "keeps min(n,total) entries")
	for i := range got {
		if i < len(want) {
			vx.Assert("C16", got[i].GetHash().String() == want[i].GetHash().String(), "keeps the last n of the unbounded merge")
		}
	}
	vx.Assert("C16", sameSet(hashSet(A.Heads().Slice()), refHeads(A.GetEntries().Slice())), "heads of truncated set")
	vx.Cover("c16-done")
}

var _ = register("H_C16", H_C16)
