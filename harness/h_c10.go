//go:build verif

package zz_verif

import (
	ipfslog "berty.tech/go-ipfs-log"
	"berty.tech/go-ipfs-log/entry/sorting"
	"berty.tech/go-ipfs-log/internal/vx"
)

// H_C10: load from a manifest with a symbolic length limit under all fetch interleavings.
func H_C10() {
	api := newMemAPI()
	idA, idB := mockIdentity("A", []byte{1}), mockIdentity("B", []byte{2})
	A := newLog(api, idA, nil)
	B := newLog(api, idB, nil)
	A.Append(ctx, []byte("a0"), nil)
	B.Append(ctx, []byte("b0"), nil)
	B.Append(ctx, []byte("b1"), nil)
	A.Join(B, -1)
	A.Append(ctx, []byte("a1"), &ipfslog.AppendOptions{PointerCount: 2})
	full := A.Values().Slice()
	size := len(full)
	h, err := A.ToMultihash(ctx)
	vx.Assert("C10", err == nil, "publish ok")
	n := vx.Choice("n", size+2)
	conc := 1 + vx.Choice("conc", 2)
	L, err := ipfslog.NewFromMultihash(ctx, api, idA, h, &ipfslog.LogOptions{IO: &atomIO{api: api}, SortFn: sorting.LastWriteWins},
		&ipfslog.FetchOptions{Length: &n, Concurrency: conc})
	vx.Assert("C10", err == nil, "load ok")
	got := L.GetEntries().Slice()
	k := n
	if k > size {
		k = size
	}
	vx.Assert("C10", len(got) == k, "exactly min(n,size) entries")
	want := hashSet(full[size-k:])
	vx.Assert("C10", sameSet(hashSet(got), want), "the most recent entries")
	vx.Cover("c10-done")
}

var _ = register("H_C10", H_C10)
