//go:build verif

package zz_verif

import (
	ipfslog "berty.tech/go-ipfs-log"
	"berty.tech/go-ipfs-log/enc"
	"berty.tech/go-ipfs-log/entry"
	"berty.tech/go-ipfs-log/entry/sorting"
	idp "berty.tech/go-ipfs-log/identityprovider"
	"berty.tech/go-ipfs-log/iface"
	"berty.tech/go-ipfs-log/internal/vx"
	"berty.tech/go-ipfs-log/io/cbor"
	"berty.tech/go-ipfs-log/io/jsonable"
	pbio "berty.tech/go-ipfs-log/io/pb"
	"encoding/base64"
	"encoding/json"
	"github.com/ipfs/go-cid"
	"github.com/ipfs/go-ipld-cbor/encoding"
	dag "github.com/ipfs/go-merkledag"
	"github.com/polydawn/refmt/obj/atlas"
)

// symText: an untrusted text field: absent (""), or 1..max symbolic bytes.
func symText(name string, max int) string {
	return string(vx.Bytes(name, max))
}

// hexish: an untrusted field that should be hex: empty, odd length, or pairs of symbolic characters
// (the decoder forks on whether they are hex digits).
func hexish(name string, maxPairs int) string {
	switch vx.Choice(name+".shape", 3) {
	case 0:
		return ""
	case 1:
		return string(vx.BytesN(name+".odd", 1))
	}
	return string(vx.BytesN(name, 2*(1+vx.Choice(name+".pairs", maxPairs))))
}

func untrustedLinks(name string) []cid.Cid {
	switch vx.Choice(name, 4) {
	case 0:
		return nil
	case 1:
		return []cid.Cid{}
	case 2:
		return []cid.Cid{vx.Cid(60)}
	}
	return []cid.Cid{vx.Cid(61), {}} // an undefined link among the links
}

func newClock() iface.IPFSLogLamportClock { return &entry.LamportClock{} }

// exercise calls every accessor, comparison and verification on an entry that decoding accepted.
func exercise(e iface.IPFSLogEntry, normal iface.IPFSLogEntry, prov idp.Interface, io iface.IO, api *memAPI, id *idp.Identity) {
	_ = e.GetPayload()
	_ = e.GetLogID()
	_ = e.GetNext()
	_ = e.GetRefs()
	_ = e.GetV()
	_ = e.GetKey()
	_ = e.GetSig()
	_ = e.GetHash().String()
	_ = e.GetAdditionalData()
	_ = e.IsValid()
	_ = e.Defined()
	if c := e.GetClock(); c != nil {
		_ = c.GetID()
		_ = c.GetTime()
		_ = c.Defined()
	}
	if i := e.GetIdentity(); i != nil {
		_ = i.ID
		_ = i.Filtered()
		if i.Signatures != nil {
			_ = i.Signatures.ID
		}
	}
	vx.Cover("accessors")
	_ = e.Verify(prov, io)
	_ = e.Verify(prov, io) // a second verification of the same entry must be as safe as the first
	vx.Cover("verified-twice")
	_ = e.Equals(normal)
	_ = normal.Equals(e)
	_ = e.IsParent(normal)
	_ = normal.IsParent(e)
	_, _ = sorting.SortByEntryHash(e, normal)
	_, _ = sorting.SortByEntryHash(normal, e)
	_, _ = sorting.LastWriteWins(e, normal)
	_, _ = sorting.FirstWriteWins(normal, e)
	_, _ = sorting.Compare(e, normal)
	vx.Cover("compared")
	cp := e.Copy()
	_ = cp.GetHash()
	// a log holding the entry: construction, linearisation, merge
	l := newLogOpt(api, id, &ipfslog.LogOptions{ID: "X", IO: io, Entries: orderedMapOf([]iface.IPFSLogEntry{normal, e})})
	_ = l.Values().Slice()
	_ = l.Heads().Slice()
	other := newLogOpt(api, id, &ipfslog.LogOptions{ID: "X", IO: io})
	_, _ = other.Join(l, -1)
	_ = other.Values().Len()
	vx.Cover("in-a-log")
}

// rawLink / rawLinks: a links section whose link byte strings are arbitrary (written by the harness's own atlas).
type rawLink struct{ B []byte }
type rawLinks struct {
	Next []rawLink
	Refs []rawLink
}

// H_C12_v2: the value the CBOR decoder hands to the repository for a current-format block, with every
// field independently absent / empty / arbitrary, goes through the repository's conversion; if that
// reports no error every operation on the resulting entry must be safe. No path may panic.
func H_C12_v2() {
	ids, _ := realIdentities("userA")
	api := newMemAPI()
	io := &atomIO{api: api}
	normal, _ := entry.CreateEntryWithIO(ctx, api, ids[0], &entry.Entry{LogID: "X", Payload: []byte("n")}, nil, io)
	// one group of fields is untrusted at a time (FOCUS), the others hold well-formed defaults; FOCUS=all
	// varies the structural choices (absent clock / identity / signatures) together
	focus := vx.Choice("focus", 7)
	j := &jsonable.Entry{V: 2, LogID: "X", Key: "0a", Sig: "0b", Next: []cid.Cid{}, Refs: []cid.Cid{}, Payload: "p",
		Clock: &jsonable.LamportClock{ID: "0c", Time: 1}}
	switch focus {
	case 0: // scalar fields
		j.V = vx.Uint64("v")
		j.LogID = []string{"", "X", "other"}[vx.Choice("logid", 3)]
		j.Payload = symText("payload", 2)
	case 1: // key and signature text
		j.Key = hexish("key", 1)
		j.Sig = hexish("sig", 1)
	case 2: // links
		j.Next = untrustedLinks("next")
		j.Refs = untrustedLinks("refs")
	case 3: // clock
		switch vx.Choice("clock", 3) {
		case 0:
			j.Clock = nil
			vx.Sig("clock=absent")
		case 1:
			j.Clock = &jsonable.LamportClock{ID: hexish("clock.id", 1), Time: vx.Int("clock.time")}
		case 2:
			j.Clock = &jsonable.LamportClock{}
		}
	case 5: // encrypted-links side fields, read with a link-encrypting codec
		b64 := []string{"", "AAAAAAAAAAAAAAAAAAAAAAAAAAAAAAAA", "AAAAAAAAAAAAAAAAAAAAAAAAAAAAAAAAAAAA", "AAAA", "!!", "A"}
		j.EncryptedLinks = b64[vx.Choice("enc_links", len(b64))]
		j.EncryptedLinksNonce = b64[vx.Choice("enc_links_nonce", len(b64))]
		base, err := cbor.IO(&entry.Entry{}, &entry.LamportClock{})
		if err != nil {
			panic(err)
		}
		k, _ := enc.NewSecretbox(linkKeyBytes(3))
		dec, derr := base.ApplyOptions(&cbor.Options{LinkKey: k}).DecryptLinks(j)
		vx.Cover("decrypt-links-returned")
		if derr != nil || dec == nil {
			vx.Cover("rejected")
			return
		}
		j = dec
	case 6: // a links section sealed with the shared link key (by any holder of it) whose content is untrusted
		lb := [][]byte{{}, {0}, {1, 2, 3}, {0, 0x12, 0x20}, nil}[vx.Choice("linkBytes", 5)]
		at := atlas.MustBuild(
			atlas.BuildEntry(rawLink{}).UseTag(42).Transform().
				TransformMarshal(atlas.MakeMarshalTransformFunc(func(l rawLink) ([]byte, error) { return l.B, nil })).
				TransformUnmarshal(atlas.MakeUnmarshalTransformFunc(func(b []byte) (rawLink, error) { return rawLink{B: b}, nil })).
				Complete(),
			atlas.BuildEntry(rawLinks{}).StructMap().
				AddField("Next", atlas.StructMapEntry{SerialName: "next"}).
				AddField("Refs", atlas.StructMapEntry{SerialName: "refs"}).
				Complete(),
		).WithMapMorphism(atlas.MapMorphism{KeySortMode: atlas.KeySortMode_RFC7049})
		mar := encoding.NewPooledMarshaller(at)
		plain, merr := mar.Marshal(rawLinks{Next: []rawLink{{B: lb}}, Refs: []rawLink{}})
		if merr != nil {
			panic(merr)
		}
		k, _ := enc.NewSecretbox(linkKeyBytes(3))
		nonce := make([]byte, 24)
		sealed, serr := k.SealWithNonce(plain, nonce)
		if serr != nil {
			panic(serr)
		}
		j.EncryptedLinks = base64.StdEncoding.EncodeToString(sealed)
		j.EncryptedLinksNonce = base64.StdEncoding.EncodeToString(nonce)
		base, err := cbor.IO(&entry.Entry{}, &entry.LamportClock{})
		if err != nil {
			panic(err)
		}
		dec, derr := base.ApplyOptions(&cbor.Options{LinkKey: k}).DecryptLinks(j)
		vx.Cover("sealed-links-decoded")
		if derr != nil || dec == nil {
			vx.Cover("rejected")
			return
		}
		j = dec
	case 4: // identity
		switch vx.Choice("identity", 3) {
		case 0:
			j.Identity = &jsonable.Identity{ID: symText("identity.id", 1), PublicKey: hexish("identity.pk", 1), Type: "orbitdb"}
			vx.Sig("identity.signatures=absent")
		case 1:
			j.Identity = &jsonable.Identity{ID: "x", PublicKey: hexish("identity.pk", 1), Type: "orbitdb",
				Signatures: &jsonable.IdentitySignature{ID: hexish("identity.sig.id", 1), PublicKey: hexish("identity.sig.pk", 1)}}
		case 2:
			j.Identity = &jsonable.Identity{}
			vx.Sig("identity.signatures=absent")
		}
	}
	e := &entry.Entry{}
	err := j.ToPlain(e, ids[0].Provider, newClock)
	vx.Assert("C12", true, "conversion returned")
	vx.Cover("converted")
	if err != nil {
		vx.Cover("rejected")
		return
	}
	e.SetHash(vx.Cid(62))
	vx.Cover("accepted")
	exercise(e, normal, ids[0].Provider, io, api, ids[0])
}

// H_C12_v0: the same for legacy (v0) blocks.
func H_C12_v0() {
	ids, _ := realIdentities("userA")
	api := newMemAPI()
	io := &atomIO{api: api}
	normal, _ := entry.CreateEntryWithIO(ctx, api, ids[0], &entry.Entry{LogID: "X", Payload: []byte("n")}, nil, io)
	j := &jsonable.EntryV0{
		ID:      []string{"", "X"}[vx.Choice("logid", 2)],
		Payload: symText("payload", 1),
		V:       vx.Uint64("v"),
		Key:     hexish("key", 1),
		Sig:     hexish("sig", 1),
	}
	switch vx.Choice("hash", 3) {
	case 1:
		s := symText("hash", 2)
		j.Hash = &s
	case 2:
		s := vx.Cid(63).String()
		j.Hash = &s
	}
	switch vx.Choice("next", 4) {
	case 1:
		j.Next = []string{}
	case 2:
		j.Next = []string{vx.Cid(64).String()}
	case 3:
		j.Next = []string{symText("next0", 2)}
	}
	switch vx.Choice("clock", 2) {
	case 0:
		vx.Sig("clock=absent")
	case 1:
		j.Clock = &jsonable.LamportClock{ID: hexish("clock.id", 1), Time: vx.Int("clock.time")}
	}
	e := &entry.Entry{}
	err := j.ToPlain(e, ids[0].Provider, newClock)
	vx.Assert("C12", true, "conversion returned")
	vx.Cover("converted")
	if err != nil {
		vx.Cover("rejected")
		return
	}
	if !e.GetHash().Defined() {
		e.SetHash(vx.Cid(62))
	}
	vx.Cover("accepted")
	exercise(e, normal, ids[0].Provider, io, api, ids[0])
}

// H_C12_stored: a stored history containing malformed blocks (clock missing, identity signatures missing,
// non-hex key) loads the remaining history and skips them; the fetch workers must not panic.
func H_C12_stored() {
	h, L := storedLog()
	vx.Assume(L.Len() > 0)
	all := L.Values().Slice()
	bad := map[string]bool{}
	victim := all[vx.Choice("victim", len(all))]
	kind := faultNoClock + vx.Choice("kind", 3)
	h.api.fault[hstr(victim)] = kind
	bad[hstr(victim)] = true
	vx.Sig([]string{"clock-missing", "signatures-missing", "key-not-hex"}[kind-faultNoClock])
	var heads []cid.Cid
	for _, e := range L.Heads().Slice() {
		heads = append(heads, e.GetHash())
	}
	want := refReach(heads, all, bad)
	got := entry.FetchAll(ctx, h.api, heads, &iface.FetchOptions{Concurrency: 1 + vx.Choice("conc", 2), IO: &atomIO{api: h.api}})
	vx.Cover("stored-fetch-returned")
	if kind == faultNoSigs {
		// the mock identities of the history carry signatures: removing them makes the block undecodable
		vx.Cover("signatures-missing")
	}
	vx.Assert("C12", sameSet(hashSet(got), want), "the remaining history is loaded and the malformed block skipped")
}

var _ = register("H_C12_stored", H_C12_stored)
var _ = register("H_C12_v2", H_C12_v2)
var _ = register("H_C12_v0", H_C12_v0)

// H_C12_pb: the legacy dag-pb codec on blocks whose JSON document is not an entry / manifest object at all
// (null, an empty object, a list, a string, a number): decoding returns an error or a usable value, never nil
// without an error, and nothing panics - also when such a block is met while loading a log.
func H_C12_pb() {
	ids, _ := realIdentities("userA")
	api := newMemAPI()
	io, err := pbio.IO(&entry.Entry{}, &entry.LamportClock{})
	if err != nil {
		panic(err)
	}
	var doc interface{}
	switch vx.Choice("doc", 5) {
	case 0:
		doc = nil
		vx.Sig("doc=null")
	case 1:
		doc = map[string]interface{}{}
		vx.Sig("doc={}")
	case 2:
		doc = []interface{}{}
		vx.Sig("doc=[]")
	case 3:
		doc = "text"
		vx.Sig("doc=string")
	case 4:
		doc = 7
		vx.Sig("doc=number")
	}
	data, err := json.Marshal(doc)
	if err != nil {
		panic(err)
	}
	nd := &dag.ProtoNode{}
	nd.SetData(data)
	if err := api.Dag().Add(ctx, nd); err != nil {
		panic(err)
	}
	e, derr := io.DecodeRawEntry(nd, nd.Cid(), ids[0].Provider)
	vx.Assert("C12", derr != nil || e != nil, "decoding an untrusted legacy block returns an error or an entry")
	jl, jerr := io.DecodeRawJSONLog(nd)
	vx.Assert("C12", jerr != nil || jl != nil, "decoding an untrusted legacy manifest returns an error or a manifest")
	vx.Cover("pb-decoded")
	// met while loading: as a manifest, and as an entry hash
	N, lerr := ipfslog.NewFromMultihash(ctx, api, ids[0], nd.Cid(), &ipfslog.LogOptions{ID: "X", IO: io}, &ipfslog.FetchOptions{})
	if lerr == nil && N != nil {
		_ = N.Values().Len()
	}
	M, merr := ipfslog.NewFromEntryHash(ctx, api, ids[0], nd.Cid(), &ipfslog.LogOptions{ID: "X", IO: io}, &ipfslog.FetchOptions{})
	if merr == nil && M != nil {
		_ = M.Values().Len()
	}
	vx.Cover("pb-loaded")
}

var _ = register("H_C12_pb", H_C12_pb)

// H_C12_manifest: hand-written manifests over a stored history - the head list names a head twice or three
// times, an entry that is not a head, an identifier nothing is stored under, or nothing at all; the log id is
// empty. Loading such a manifest (any length limit) returns an error or a well-formed log and never panics.
func H_C12_manifest() {
	h, L := storedLog()
	vx.Assume(L.Len() > 0)
	io := h.io()
	var heads []cid.Cid
	for _, e := range L.Heads().Slice() {
		heads = append(heads, e.GetHash())
	}
	all := L.Values().Slice()
	id := L.GetID()
	shape := vx.Choice("shape", 7)
	vx.Sig([]string{"head-twice", "head-three-times", "non-head-entry-listed", "unknown-identifier", "no-heads", "empty-id", "every-entry-twice"}[shape])
	switch shape {
	case 0:
		heads = append(heads, heads[0])
	case 1:
		heads = append(heads, heads[0], heads[0])
	case 2:
		heads = append(heads, all[0].GetHash())
	case 3:
		heads = append(heads, vx.Cid(77))
	case 4:
		heads = nil
	case 5:
		id = ""
	case 6:
		heads = nil
		for _, e := range all {
			heads = append(heads, e.GetHash(), e.GetHash())
		}
	}
	m, err := io.Write(ctx, h.api, &iface.JSONLog{ID: id, Heads: heads}, nil)
	vx.Assert("C12", err == nil, "writing the manifest block succeeds")
	if err != nil {
		return
	}
	fo := &ipfslog.FetchOptions{Concurrency: 1}
	if lim := vx.Choice("limit", 3); lim > 0 {
		n := lim - 1 // 0 or 1
		fo.Length = &n
	}
	N, lerr := ipfslog.NewFromMultihash(ctx, h.api, h.ids[0], m, &ipfslog.LogOptions{ID: "X", IO: io, SortFn: h.sortFn()}, fo)
	vx.Assert("C12", lerr != nil || N != nil, "loading an untrusted manifest returns an error or a log")
	vx.Cover("manifest-loaded")
	if lerr != nil || N == nil {
		vx.Cover("manifest-refused")
		return
	}
	stored := hashSet(all)
	vx.Assert("C12", subset(hashSet(entriesOf(N)), stored), "a log loaded from an untrusted manifest holds stored entries only")
	vx.Assert("C12", subset(hashSet(N.Heads().Slice()), hashSet(entriesOf(N))), "the heads of a log loaded from an untrusted manifest are entries of that log")
	_ = N.Values().Slice()
	if _, aerr := N.Append(ctx, []byte("after"), nil); aerr == nil {
		vx.Cover("manifest-log-appended")
	}
}

var _ = register("H_C12_manifest", H_C12_manifest)
