#!/bin/bash
# usage: tools/seedcheck_wt.sh <seed> <PROP> [tier] -- like seedcheck.sh but in a scratch worktree (VERIF_REPO), leaving /repo untouched
SEED=$1; PROP=$2; TIER=${3:-quick}
WT=/tmp/seedrepo.$$
cd /verif || exit 2
git -C /repo worktree add -q --detach $WT HEAD || exit 2
trap 'git -C /repo worktree remove --force '$WT'; rm -rf /tmp/scratch-evidence.'$$ EXIT
git -C $WT apply /verif/seeded/$SEED/patch.diff || { echo "patch does not apply"; exit 3; }
VERIF_EVIDENCE_DIR=/tmp/scratch-evidence.$$ VERIF_REPO=$WT ./check $PROP $TIER > /tmp/seedcheck.$SEED.$PROP.log 2>&1
RC=$?
grep -E "^VIOLATION|^KNOWN|^INCONCLUSIVE" /tmp/seedcheck.$SEED.$PROP.log | head -6 | cut -c1-200
grep -E "signature:" /tmp/seedcheck.$SEED.$PROP.log | head -3 | cut -c1-200
tail -1 /tmp/seedcheck.$SEED.$PROP.log
echo "seed=$SEED prop=$PROP tier=$TIER exit=$RC"
