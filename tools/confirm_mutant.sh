#!/bin/bash
# usage: tools/confirm_mutant.sh <seed-id> <patch.diff> <demo_test.go> [demo-dir-in-repo (default test)]
# Confirms in a scratch worktree of /repo HEAD: suite passes with the change, demo fails with it, demo passes without it.
set -u
export GOFLAGS=-mod=mod GOPROXY=off GOSUMDB=off GOTOOLCHAIN=local
ID=$1; PATCH=$(realpath $2); DEMO=$(realpath $3); DDIR=${4:-test}
WT=/tmp/mutconf/$ID
rm -rf $WT; git -C /repo worktree prune; mkdir -p /tmp/mutconf
git -C /repo worktree add -q --detach $WT HEAD || exit 2
cd $WT
res() { echo "$1"; }
git apply --check $PATCH || { echo "PATCH DOES NOT APPLY"; git -C /repo worktree remove --force $WT; exit 3; }
git apply $PATCH
go build ./... || { echo "DOES NOT COMPILE"; git -C /repo worktree remove --force $WT; exit 3; }
go test -vet=off -count=1 -timeout 25m ./... > suite.log 2>&1; S=$?
echo "suite with change: exit=$S"; grep -E "^(ok|FAIL|---)" suite.log | head
cp $DEMO $DDIR/
DN=$(grep -oE "func (Test[A-Za-z0-9_]+)" $DEMO | head -1 | awk '{print $2}')
go test -vet=off -count=1 -timeout 10m -run "^$DN\$" ./$DDIR/ > demo_with.log 2>&1; DW=$?
echo "demo ($DN) with change: exit=$DW"
git apply -R $PATCH
go test -vet=off -count=1 -timeout 10m -run "^$DN\$" ./$DDIR/ > demo_without.log 2>&1; DO=$?
echo "demo without change: exit=$DO"
cd /; git -C /repo worktree remove --force $WT
if [ $S = 0 ] && [ $DW != 0 ] && [ $DO = 0 ]; then echo "CONFIRMED $ID"; exit 0; fi
echo "NOT CONFIRMED $ID"; exit 1
