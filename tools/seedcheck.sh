#!/bin/bash
# usage: tools/seedcheck.sh <seed-dir-name> <PROP> [tier]  -- applies the seeded change to /repo, runs the check, always reverts.
SEED=$1; PROP=$2; TIER=${3:-quick}
cd /verif || exit 2
if ! git -C /repo diff --quiet; then echo "/repo has uncommitted changes; refusing"; exit 2; fi
trap 'git -C /repo checkout -- . ; git -C /repo clean -fdq' EXIT
git -C /repo apply /verif/seeded/$SEED/patch.diff || { echo "patch does not apply"; exit 3; }
VERIF_NOEVIDENCE=1 ./check $PROP $TIER > /tmp/seedcheck.$SEED.$PROP.log 2>&1
RC=$?
grep -E "^VIOLATION|signature:|^KNOWN|^INCONCLUSIVE" /tmp/seedcheck.$SEED.$PROP.log | head -8
tail -1 /tmp/seedcheck.$SEED.$PROP.log
echo "seed=$SEED prop=$PROP tier=$TIER exit=$RC"
git -C /verif checkout -- evidence/$PROP.json 2>/dev/null
exit 0
