#!/bin/bash
# usage: tools/store_seed.sh <mutdir-name e.g. C04c> <seed id e.g. C04-c> <PROP> <round word> <needs_to_manifest text>
m=$1; id=$2; prop=$3; round=$4; need="$5"
lc=$(echo $m | tr 'A-Z' 'a-z')
mkdir -p /verif/seeded/$id
cp /tmp/mut/$m/patch.diff /verif/seeded/$id/
cp /tmp/mut/$m/test/zz_demo_${lc}_test.go /tmp/mut/$m/entry/zz_demo_${lc}_test.go /verif/seeded/$id/ 2>/dev/null
cp /tmp/mut/$m/NOTES.md /verif/seeded/$id/ 2>/dev/null
python3 - "$id" "$prop" "$need" "$round" "zz_demo_${lc}_test.go" <<'PY'
import json,sys
id,prop,need,rnd,demo=sys.argv[1:]
json.dump({"property":prop,"seed":id,"origin":"independent sub-agent (%s round: told the earlier seeds' mechanisms and asked for a different one), property text and a scratch worktree only"%rnd,"needs_to_manifest":need,"confirmed_by":"tools/confirm_mutant.sh: applies to /repo HEAD, module builds, full suite passes with the change, demo test fails with it and passes without it","demo":demo,"detected_by":[]},open("/verif/seeded/%s/meta.json"%id,"w"),indent=1)
PY
git -C /repo worktree remove --force /tmp/mut/$m
