#!/bin/bash
# usage: tools/seedmatrix.sh [tier]  -- runs every seeded change against the check of its property (and extra checks listed below)
TIER=${1:-quick}
cd /verif
declare -A EXTRA=( [C03-a]="C06" [C05-a]="C13" )
for d in seeded/*/; do
  s=$(basename $d); p=$(python3 -c "import json;print(json.load(open('$d/meta.json'))['property'])")
  for prop in $p ${EXTRA[$s]}; do
    tools/seedcheck.sh $s $prop $TIER > /tmp/seedmatrix.$s.$prop.log 2>&1
    v=$(grep -c "^VIOLATION" /tmp/seedmatrix.$s.$prop.log)
    rc=$(grep -o "exit=[0-9]*" /tmp/seedmatrix.$s.$prop.log | tail -1)
    echo "$s $prop $TIER violations=$v $rc"
  done
done
