#!/usr/bin/env python3
"""Regenerates /verif/MANIFEST.json from the table below (kept valid against /root/.vp/MANIFEST.schema.json)."""
import json, os
ROOT = os.path.dirname(os.path.dirname(os.path.abspath(__file__)))
props = [json.loads(l) for l in open(os.path.join(ROOT, 'properties.jsonl'))]
reg = json.load(open(os.path.join(ROOT, 'harness', 'registry.json')))

TECH = "bounded symbolic execution of the repository's go/ssa (own interpreter) with z3 deciding every symbolic branch and assertion; exhaustive path enumeration within stated bounds; native replay of counterexamples"
TRUST = "go/ssa construction, the gosx interpreter (cross-validated natively on sampled paths), z3; stubs listed in evidence.assumptions (collision-free content identifiers with symbolic order, documented sync semantics); bounds in evidence.coverage.bounds"

CLAIMS = {
 "C01": ("model_checking", "For every history of appends/merges(/rebuilds) within the bounds and every order, grouping and repetition of the completing merges, the solver-checked paths show equal entry sets, heads and (strict total orders) value sequences; hash tie-breaks are symbolic so each path covers all relative hash orders consistent with it.", "§5 C01"),
 "C02": ("model_checking", "Every reachable state (each prefix of each bounded history) is compared with the reference definition of heads on all four head accessors.", "§5 C02"),
 "C03": ("model_checking", "Every reachable state within the bounds: Values() complete, duplicate-free, causal, sorted by the configured comparator (comparator verdicts are solver terms when clocks/hashes are symbolic) and independent of arrival order.", "§5 C03"),
 "C04": ("model_checking", "Every append in every bounded history, with symbolic initial clocks and a choice of pointer counts: predecessors = heads, clock id, strict clock dominance over all entries (solver, 64-bit), single head, reference discipline.", "§5 C04"),
 "C05": ("model_checking", "Deep snapshot of every log before each step of every bounded history, compared field-wise after it.", "§5 C05"),
 "C06": ("model_checking", "Join and Append executed symbolically with the repository's real signing/verification path: a source chain with an invalid entry of symbolic kind and position against a destination holding a symbolic prefix; verdict compared with a reference candidate computation, all-or-nothing checked on state and on future behaviour (twin log).", "§5 C06"),
 "C07": ("model_checking", "The repository's signing path (CreateEntryWithIO, ToHashable, toBuffer, OrbitDB provider, keystore) is executed symbolically on an entry with symbolic payload bytes, clock and links; for each of 17 single-field modifications the solver shows that the signing documents differ (verification fails) or returns the colliding values.", "§5 C07"),
 "C08": ("model_checking", "The repository's codec glue (Normalize, ToJsonableEntry, the atlas as built by cbor.IO, IOCbor.Write/Read/DecodeRawEntry/PreSign/DecryptLinks, Entry.ToPlain) is executed symbolically over an abstract canonical CBOR document: field-wise losslessness, identifier stability under re-encoding and rebuilding, and identifier change under 16 single-field mutations are solver obligations. Bit-exactness of pinned vectors is not claimed.", "§5 C08"),
 "C09": ("model_checking", "All four loaders against the stored replica of every bounded history; in the explore runs every interleaving of the fetcher's worker goroutines (= every block arrival order) is enumerated by the engine's scheduler while data stays symbolic; result compared with the original log.", "§5 C09"),
 "C10": ("model_checking", "As C09 with every limit n in [0,size+1]; the expected set is computed by a reference oracle that does not depend on the schedule, so equality on every explored schedule is the required independence from concurrency and arrival order.", "§5 C10"),
 "C11": ("model_checking", "Symbolic fault table (absent / undecodable / hung) and exclusion set over the stored log, every worker interleaving; deadlock = non-termination; request journal checked for duplicates and excluded hashes; result compared with reference reachability.", "§5 C11"),
 "C12": ("model_checking", "The repository's conversion of decoded blocks (Entry.ToPlain, EntryV0.ToPlain, Identity/IdentitySignature/LamportClock.ToPlain) and everything callable on an accepted entry are executed symbolically on values with absent/empty/symbolic fields: every path must end without a run-time panic (nil dereference, index, conversion are implicit assertions). Claimed for structured values only, not for raw bytes through refmt/encoding-json.", "§5 C12"),
 "C13": ("model_checking", "Every unordered combination of two (thorough: three) operations on one shared log from every bounded pre-state, every interleaving at lock operations within the preemption bound, with a vector-clock happens-before race detector on every heap cell; deadlock = no enabled goroutine; reads and final state checked against the structural predicates.", "§5 C13"),
 "C14": ("model_checking", "A.Join(B) against concurrent appends / merges on B (and the symmetric cross-merge) from every bounded pre-state, every interleaving at lock operations within the preemption bound, RWMutex with writer preference; deadlock = no enabled goroutine; result compared with the source's states.", "§5 C14"),
 "C15": ("model_checking", "Iterator over the replica of every bounded history with every upper/lower bound combination and a symbolic amount, compared with a reference range computation; panics and a non-closed channel are violations.", "§5 C15"),
 "C16": ("model_checking", "Symbolic size bound n in [0,total+2] against the twin that merges unbounded, over the replicas of every bounded history and three orderings; panics are implicit violations.", "§5 C16"),
 "C20": ("model_checking", "Keystore (LRU cache + datastore, interpreted from source) under every bounded sequence of create/get/has over two instances sharing a datastore, compared with a model map; identity creation executed symbolically with Dolev-Yao signatures: stability and the three signature relations are solver obligations.", "§5 C20"),
 "C17": ("model_checking", "Every bounded history of appends / joins / publications on replicas sharing one store, written through the real CBOR codec path (IOCbor.Write -> Dag().Add): at every block write the written block's links must already be stored; a symbolic write fault (one or two consecutive failing writes at every position) must surface as an error and leave no dangling reference; every returned identifier is loaded back and compared.", "§5 C17"),
 "C18": ("model_checking", "Entries with every combination of 0..2 predecessors/references are created through the real link-encrypting codec path (PreSign, NonceRefForEntry, ToJsonableEntry, IOCbor.Write, enc.boxed); the stored abstract document is inspected for traversable links and for any occurrence of the link identifiers outside a sealed box; three readers (same / other / no key) decode it symbolically.", "§5 C18"),
 "C19": ("model_checking", "Order laws as SMT obligations over all 2^64 clock times, symbolic clock-id bytes and symbolic hash ranks; sort.SliceStable interpreted from source for all input permutations of 3 entries.", "§5 C19"),
}

checks, na = [], []
for p in props:
    pid = p['id']
    if pid in CLAIMS and pid in reg:
        cat, text, ref = CLAIMS[pid]
        c = {"property_id": pid, "quick_cmd": f"./check {pid} quick", "evidence_file": f"/verif/evidence/{pid}.json",
             "replay_cmd_template": "./check --replay {path}", "engine": "gosx",
             "level_claimed": {"category": cat, "text": text, "design_ref": ref},
             "level_note": TRUST, "technique": TECH}
        if reg[pid].get('thorough'):
            c["thorough_cmd"] = f"./check {pid} thorough"
        checks.append(c)
    else:
        na.append({"property_id": pid, "reason": NA.get(pid, "check not built yet (work in progress; see DESIGN.md build order)") if 'NA' in globals() else "check not built yet (work in progress; see DESIGN.md build order)"})

m = {
 "version": 1,
 "setup_cmd": "cd /verif/engine && GOFLAGS=-mod=mod GOPROXY=off GOSUMDB=off GOTOOLCHAIN=local go build -o /verif/bin/gosx ./cmd/gosx && /verif/bin/gosx selftest",
 "hooks": {"guard": "verif", "enable": "no hooks in /repo: the harness package zz_verif and internal/vx (files tagged //go:build verif) are injected by go/packages Overlay for the engine and by go test -overlay -tags verif for native replay; /repo is never modified",
           "baseline_off_cmd": "cd /repo && GOFLAGS=-mod=mod go test -vet=off -count=1 -timeout 25m ./...", "source_commits": [], "add_only": True},
 "engines": [{"name": "gosx", "path": "/verif/engine", "serves_properties": [c['property_id'] for c in checks], "kind_free_text": "symbolic interpreter for go/ssa (x/tools v0.29.0) + SMT-LIB2 pipe to z3 5.1 (z3-new); harnesses in /verif/harness"}],
 "checks": checks, "not_applicable": na,
 "notes": "Exit codes: 0 held (KNOWN-FINDING lines possible), 1 VIOLATION, 2 inconclusive (unknown/timeout/unreproduced/vacuity; never a pass). Known findings: /verif/known_findings.jsonl."
}
json.dump(m, open(os.path.join(ROOT, 'MANIFEST.json'), 'w'), indent=1)
print(len(checks), "checks,", len(na), "not applicable")
