#!/bin/bash
# usage: tools/seedmatrix_wt.sh [seed...]  -- runs every stored seed against the quick check of its property (scratch worktrees)
# and, where that does not raise a violation, against the checks named in ALT; writes detected_by into meta.json
cd /verif || exit 2
declare -A ALT=( [C01-b]="C06" [C04-g]="C06" [C17-g]="C16" [C09-e]="C08" [C02-e]="C13 C14" [C16-e]="C16" [C01-d]="C02" [C03-a]="C06" [C05-a]="C13" [C02-c]="C13" [C13-b]="C14" [C17-d]="C06 C05" [C14-d]="C16 C13" [C17-h]="C09" [C11-h]="C09" [C06-h]="C02" [C03-h]="C04" [C14-h]="C02" [C05-h]="C01" [C13-h]="C14" [C03-i]="C04" [C13-i]="C09 C11" [C18-i]="C08" [C20-i]="C06" [C01-j]="C13" [C04-j]="C13" [C09-j]="C02" [C17-j]="C13" [C02-k]="C04" [C03-k]="C01 C05" [C15-k]="C04" [C18-k]="C09" [C11-k]="C12" [C17-k]="C09" )
SEEDS=${@:-$(ls seeded)}
for s in $SEEDS; do
  prop=$(python3 -c "import json;print(json.load(open('seeded/$s/meta.json'))['property'])")
  det=""
  for p in $prop ${ALT[$s]}; do
    out=$(tools/seedcheck_wt.sh $s $p 2>&1 | tail -1)
    rc=${out##*exit=}
    echo "$s $p exit=$rc"
    [ "$rc" = "1" ] && det="$det $p"
  done
  python3 - "$s" $det <<'PY'
import json,sys
s=sys.argv[1]; det=sys.argv[2:]
p='/verif/seeded/%s/meta.json'%s
m=json.load(open(p)); m['detected_by']=det; json.dump(m,open(p,'w'),indent=1)
PY
  [ -z "$det" ] && echo "MISSED $s"
done
echo "matrix done"
