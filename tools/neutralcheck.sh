#!/bin/bash
# usage: tools/neutralcheck.sh <patch.diff> [PROP...]  -- applies a (supposedly behaviour-preserving) patch in a scratch worktree and
# runs the quick checks against it; every non-zero exit is reported (a robustness defect of the checks, or the patch is not neutral)
PATCH=$(realpath $1); shift
PROPS=${@:-C01 C02 C03 C04 C05 C06 C07 C08 C09 C10 C11 C12 C13 C14 C15 C16 C17 C18 C19 C20}
WT=/tmp/neutralrepo.$$
cd /verif || exit 2
git -C /repo worktree add -q --detach $WT HEAD || exit 2
trap 'git -C /repo worktree remove --force '$WT EXIT
git -C $WT apply $PATCH || { echo "patch does not apply"; exit 3; }
bad=0
for p in $PROPS; do
  VERIF_EVIDENCE_DIR=/tmp/scratch-evidence.$$ VERIF_REPO=$WT ./check $p quick > /tmp/neutralcheck.$$.$p.log 2>&1; rc=$?
  if [ $rc != 0 ]; then bad=1; echo "ALARM $p exit=$rc on $(basename $(dirname $PATCH))/$(basename $PATCH)"; grep -E "^VIOLATION|^INCONCLUSIVE|signature:" /tmp/neutralcheck.$$.$p.log | head -4 | cut -c1-400; else rm -f /tmp/neutralcheck.$$.$p.log; fi
done
rm -rf /tmp/scratch-evidence.$$
[ $bad = 0 ] && echo "quiet on $(basename $(dirname $PATCH))/$(basename $PATCH)"
exit $bad
